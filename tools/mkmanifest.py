#!/usr/bin/env python3
"""writes /verif/MANIFEST.json from the table below (kept as code so that it stays consistent)"""
import json, os, subprocess
HERE = os.path.dirname(os.path.dirname(os.path.abspath(__file__)))

CHECKS = {
 "C17": dict(
    category="model_checking",
    text="SockIO.tla (receive_data/send_data algorithms against every sequence of socket behaviours) model-checked by TLC for the C17 invariants; "
         "TLC enumerates every behaviour script up to the bound; each is executed against the real receive_data/send_data on a scripted socket "
         "(MSG_WAITALL on/off, blocking/timeout mode, byte scales crossing the 60000-byte chunk limit) and every recorded execution is "
         "validated by TLC against Trace_SockIO.tla.",
    note="Trusted: the scripted socket (returns at most what was asked; EOF/fatal errors are permanent), the bytes<->units projection, TLC. "
         "Bounded: request sizes 1..3(4) units, scripts of length <=3(4).",
    technique="TLA+ spec + TLC model checking; TLC-generated fault scripts replayed into the real code; TLC trace validation",
    ref="6/C17"),
 "C18": dict(
    category="model_checking",
    text="Pool.tla (atomic design: safety + liveness under fairness) and PoolImpl.tla (PlusCal, one label per statement of "
         "Pool.process/notify_done/close and Worker.run, with the lock) model-checked by TLC; TLC enumerates environment scripts "
         "(submit/release/close orders); the real Pool and Worker threads run them under a deterministic line-level scheduler "
         "(preemption-bounded DFS, then seeded random schedules); every distinct call/return history is validated by TLC against "
         "Trace_Pool.tla, which searches for positions of the atomic effects (linearizability). The refusal path is also driven end to "
         "end through the real thread-pool server over the in-memory transport.",
    note="Trusted: sys.settrace line events as yield points (no races below source-line granularity, GIL), cooperative Lock/Event "
         "shims installed as svr_threads.threading, TLC. Bounded: pool sizes 1..3, <=4 jobs, preemption bound 1 (quick) / 2 (thorough).",
    technique="TLA+/PlusCal spec + TLC model checking; deterministic schedule exploration of the real threads; TLC trace validation (linearizability search)",
    ref="6/C18"),
 "C14": dict(
    category="model_checking",
    text="NameServer.tla defines the name server as a map (Apply = exact result of every operation; prefixes and regex kinds with literal "
         "sequence semantics) and is model-checked by TLC; TLC enumerates the whole operation alphabet (534 operations over an adversarial "
         "name pool: case pair, SQL wildcards, regex metacharacter, non-ASCII, empty, reserved) and random histories (-simulate); each history "
         "runs on a real NameServer over MemoryStorage and over SqlStorage with full listings after every step, reopen points, and every "
         "sqlite statement of mutating operations as an injected failure point; TLC validates every trace against the model (Trace_NS.tla).",
    note="Trusted: the name/tag/uri concretisation tables, the sqlite3 shim that injects OperationalError at the k-th execute()/commit(), TLC. "
         "One selector per remove/list call; histories bounded (single operations on two rich states exhaustively, random histories of length 10-14).",
    technique="TLA+ spec + TLC; TLC-generated operation histories replayed on both storage back-ends with fault injection; TLC trace validation (monitor)",
    ref="6/C14"),
 "C15": dict(
    category="model_checking",
    text="NameServerImpl.tla (PlusCal, statement-level register/remove with the re-entrant lock) model-checked for one-winner / counts-sum-to-one / "
         "no-internal-error; TLC enumerates all scenarios (initial state x one operation per thread, 2 and 3 threads); the real NameServer runs "
         "them in real threads under a deterministic line-level scheduler (preemption-bounded DFS, then seeded random); every distinct "
         "call/return history is checked by TLC for linearizability against the atomic map of NameServer.tla (Trace_NSLin.tla places each effect "
         "between call and return).",
    note="Trusted: sys.settrace line events as yield points (GIL excludes finer races), the cooperative RLock shim, TLC. Bounded: 2-3 threads, one "
         "operation each, two shared names, preemption bound 2/1 (quick) or 3/2 (thorough); sqlite back-end only in the thorough tier.",
    technique="TLA+/PlusCal spec + TLC; deterministic schedule exploration of real threads; TLC linearizability search over recorded histories",
    ref="6/C15"),
 "C09": dict(
    category="model_checking",
    text="Instances.tla (atomic design of single/session/percall) and InstancesImpl.tla (PlusCal of _getInstance with the lock, racing first "
         "calls, falsy instances) model-checked by TLC; TLC walks the atomic model to enumerate open/call/close histories; a real daemon serves "
         "generated classes of every instance shape (truthy, falsy via __len__/__bool__, all-equal __eq__/__hash__) and creator kind (none, ok, "
         "fails first, wrong type) over the in-memory transport; racing first calls of 2-3 connections run on the real thread-pool server under "
         "the deterministic scheduler (yield points in the instance lookup/creation code); every trace is validated by TLC (Trace_Inst.tla).",
    note="Trusted: instance identity = serial number assigned in the generated constructors; weak references for 'dropped with the connection'; "
         "scheduler/in-memory transport; TLC. Bounded: 2 connections x histories of length 6-7, 2-3 racing clients, preemption bound 2.",
    technique="TLA+/PlusCal spec + TLC; TLC-generated histories replayed into a real daemon; schedule exploration; TLC trace validation (monitor)",
    ref="6/C09"),
 "C03": dict(
    category="model_checking",
    text="ClientCall.tla models one proxy (sequence counter modulo M, release-on-error, retry loop) against an adversary that picks a fault for "
         "every attempt; TLC checks ReturnOwn / ExecBound / ReturnedRanOnce / Recovery, and shows that each of the proxy's two defences is "
         "needed. TLC enumerates fault scripts (call kind x fault x sticky, length <=3, plus random walks in the thorough tier); a fault layer on "
         "the client socket of the in-memory transport executes them against a real Proxy and a real Daemon (reply lost, delayed past the "
         "timeout, cut then EOF/reset, reset before/after processing, stale reply replayed, sequence number altered, reply duplicated; "
         "MAX_RETRIES 0/1/2; start sequence numbers that wrap the 16-bit counter); TLC validates every recorded run (Trace_Call.tla).",
    note="Trusted: the fault layer (acts on the reply of the attacked call only), the in-memory transport, per-token execution counters in the "
         "target object, TLC. Not generated: a replay of a reply exactly 65536 requests old (indistinguishable by protocol design); stream "
         "fetches (covered under C10).",
    technique="TLA+ spec + TLC; TLC-generated fault scripts replayed into the real proxy/daemon; TLC trace validation (monitor)",
    ref="6/C03"),
 "C08": dict(
    category="model_checking",
    text="Daemon.tla (connection state machine: accepted -> handshake -> ready -> closed, with the client writing arbitrary item classes, "
         "possibly pipelined) model-checked for NoExecBeforeReady and the cleanup/accounting invariants; Gen_Hs.tla enumerates first-message "
         "class x validator behaviour x pipelined requests and states per scenario whether the handshake must be accepted and whether a "
         "connect-failure with the reason is required; raw clients write the whole pipeline into a real daemon (both server types, all four "
         "serializers, varying sequence numbers) before the server runs, and more afterwards; every execution of a registered object's method "
         "(including the daemon object's) is logged with its connection; TLC validates each run against Trace_Daemon.tla (clauses C08.*).",
    note="Trusted: the concretisation of first-message classes into bytes, the execution log written by the generated target objects, the "
         "in-memory transport, TLC. Pre-connected socket pairs are exempt by the statement and not generated; validators raising "
         "KeyboardInterrupt/SystemExit are outside the statement.",
    technique="TLA+ spec + TLC; TLC-generated handshake scenarios replayed into the real daemon; TLC trace validation (monitor)",
    ref="6/C08"),
 "C13": dict(
    category="model_checking",
    text="Daemon.tla's Teardown (hook once iff the connection had been accepted, tracked resources closed, slot released; CleanOnce / "
         "ResourcesOnce / OpenUntouched / Accounting) model-checked; Gen_Cleanup.tla enumerates ending (15 kinds: orderly, reset, cut in "
         "prefix/header/body, reset mid-message, garbage, bad version, wrong message type, oversized, security error, timeouts, unknown "
         "serializer, inconsistent annotation chunk) x tracked/untracked resources x bystander x session instance x failing hook; raw clients "
         "drive a real daemon of both server types (COMMTIMEOUT for the timeout endings; every byte offset as cut point in the thorough "
         "tier); hook calls, resource close() calls, socket state, session-instance liveness and pool/selector accounting are recorded and "
         "validated by TLC against Trace_Daemon.tla (clauses C13.*).",
    note="Trusted: resources are harness objects counting close(); weak references for session instances; in-memory transport (a reset socket "
         "raises ENOTCONN on shutdown like a real one); TLC. Endings after which the daemon may legitimately keep the connection are judged by "
         "whether it closed it.",
    technique="TLA+ spec + TLC; TLC-generated ending scenarios replayed into the real daemon; TLC trace validation (monitor)",
    ref="6/C13"),
 "C05": dict(
    category="model_checking",
    text="Daemon.tla model-checked for LoopAlive / Accounting / OpenUntouched under arbitrary client items; Gen_Hostile.tla enumerates attack "
         "scripts (two attackers sending 26 classes of hostile items before or after a handshake, their disconnects, witness calls, fresh "
         "connections, in every order up to a length, plus random walks); items are structure-aware mutations of valid CONNECT/INVOKE "
         "messages (every header field, inconsistent length fields, annotation chunks, truncations followed by a disconnect, unknown "
         "object/member, methods raising plain / unserialisable / str()-raising exceptions, oneway and batch failures); a real daemon of both "
         "server types, with and without COMMTIMEOUT, is driven over the in-memory transport with a real Proxy as witness; TLC validates each "
         "run against Trace_Daemon.tla (clauses C05.*: request loop alive, witness answers correct, fresh connections accepted, pool/selector "
         "accounting restored, no hang).",
    note="Trusted: concretisation of hostile item classes (seeded random boundary values), in-memory transport, TLC. A truncated message is always "
         "followed by a disconnect (a silent stall is outside the statement). Nothing is required of what the attacker receives.",
    technique="TLA+ spec + TLC; TLC-generated attack scripts replayed into the real daemon; TLC trace validation (monitor)",
    ref="6/C05"),
 "C12": dict(
    category="model_checking",
    text="Context.tla models serving threads with thread-local call context and response annotations (requests that set an annotation, raise, "
         "run oneway, ping, handshake) and is model-checked for AnnOwn / CtxOwn; it also shows the pinned behaviour (clearing only after a normal "
         "reply) violates AnnOwn. Gen_Ctx.tla enumerates request histories of two clients over 14 request kinds; raw clients (which see every "
         "reply with all its annotations) drive a real daemon as multiplex server, as thread pool of one worker (worker reused by the next "
         "connection) and of three; methods snapshot the context they see (connection, peer, sequence number, request annotations, correlation "
         "id, serializer, flags), also inside oneway threads; a Proxy pass covers the client-side clause; TLC validates every run against "
         "Trace_Ctx.tla.",
    note="Trusted: annotation keys / correlation ids encode the request token; in-memory transport; TLC. Server threads run to quiescence between "
         "client steps: interleavings of two requests inside handleRequest are not explored (per-thread context is thread-local by construction).",
    technique="TLA+ spec + TLC; TLC-generated request histories replayed into the real daemon; TLC trace validation (monitor)",
    ref="6/C12"),
 "C11": dict(
    category="model_checking",
    text="Batch.tla defines Run(calls) - the meaning of making a call list one by one, stopping at and including the first failure - and a model of "
         "the daemon's member-by-member batch loop that TLC checks against it; Gen_Batch.tla enumerates every call list up to length 3 (4) over "
         "add / keyword add / read / raising / append-then-raise / unexposed / private / missing; two identical journal objects in a real daemon "
         "are driven through BatchProxy (normal, oneway, and a re-used BatchProxy) and call by call, for all four serializers; results, the "
         "exception with its position, and the journals read back afterwards are validated by TLC against Run (Trace_Batch.tla).",
    note="Trusted: the journal target object, the projection of exceptions to classes, in-memory transport, TLC. A failure surfacing at "
         "submission instead of at its position is allowed by the statement. What a BatchProxy holds after a submission that itself raised is "
         "not covered by the statement and not generated.",
    technique="TLA+ spec + TLC; TLC-generated call lists replayed (batch vs one-by-one) into the real daemon; TLC trace validation (monitor)",
    ref="6/C11"),
 "C10": dict(
    category="model_checking",
    text="Streams.tla gives the exact meaning of every server-side stream step (open, fetch with re-association after a reconnect, close, "
         "disconnect with or without linger, housekeeping with lifetime and linger expiry) as operators over the stream table, and a model that "
         "TLC checks for Prefix / ForgottenStaysGone / NoExpiredAfterHousekeeping; Gen_Streams.tla generates scripts of two proxies opening "
         "streams over sources of every shape (empty, long, raising midway or at the end), fetching, closing, disconnecting, reconnecting, with "
         "housekeeping runs and clock advances; a real daemon (thread server with explicit housekeeping, multiplex server with its implicit "
         "housekeeping) and real stream iterators run them over the in-memory transport with a virtual clock, for all lifetime / linger / "
         "streaming settings; TLC replays each recorded run through the same operators (Trace_Streams.tla) and requires every fetch outcome, "
         "every item and the final table size to be the model's.",
    note="Trusted: virtual clock installed as Pyro5.server.time, the harness's stream sources (items encode stream and position), in-memory "
         "transport, TLC. Up to 3 concurrent streams from 2 proxies; scripts of length 3 exhaustively sampled plus random walks of length 12.",
    technique="TLA+ spec + TLC; TLC-generated scripts replayed into the real daemon with a virtual clock; TLC trace validation (replica monitor)",
    ref="6/C10"),
 "C16": dict(
    category="model_checking",
    text="Registry.tla gives the meaning of register (explicit / colliding / generated ids, force, weak), unregister by id or by object and "
         "garbage collection of weakly registered objects as operators over the id table, with a model TLC checks for its design invariants; "
         "Gen_Registry.tla walks the model and interleaves observations (call(id), listing, return-object, uriFor); each history runs on a "
         "fresh real daemon over the in-memory transport with serpent, json, msgpack and marshal: target objects report which of them served "
         "a call, returned objects are classified as proxy (and called through) or value; TLC replays the history through the operators "
         "(Trace_Registry.tla) and requires every outcome to be the model's.",
    note="Trusted: object identity = the number each target reports; 'by value' seen through a dict-to-class converter registered by the harness; "
         "in-memory transport; TLC. force is generated only for the two uses the statement covers; marshal has no auto-proxying and is "
         "checked for reachability and listing only.",
    technique="TLA+ spec + TLC; TLC-generated histories replayed into a real daemon; TLC trace validation (replica monitor)",
    ref="6/C16"),
 "C06": dict(
    category="model_checking",
    text="Wire.tla defines, over a structural view of byte strings (constant header fields, declared sizes, bytes available, the annotation "
         "area walked chunk by chunk, compression flag and inflatability, size limit), when a string is a well-formed message, how many bytes "
         "the decoder may consume, and the sender-side size check; TLC checks that whatever the sender builds is well formed and that both "
         "sides mean the same limit. Gen_Wire.tla enumerates all message shapes (payload classes around the compression threshold x annotation "
         "shapes incl. empty / memoryview / bytearray x correlation id x compression x MAX_MESSAGE_SIZE huge / exact / one less), all "
         "combinations of boundary values of type / flags / sequence / serializer, and 30 mutation classes x 6 base messages x 3 parameters; "
         "the real SendingMessage and recv_stub (through a real SocketConnection over a fragmenting, byte-counting fake socket) run them; TLC "
         "decides accept/reject, consumed bytes, field fidelity and re-encodability per case (Trace_Wire.tla).",
    note="Trusted: the structural projection of byte strings and the field comparison are computed by the harness; payload contents are seeded "
         "witnesses of their class. Caller-supplied compression / correlation flag bits are outside the statement.",
    technique="TLA+ spec + TLC; TLC-enumerated message shapes and mutations run through the real codec; TLC trace validation (monitor)",
    ref="6/C06"),
 "C19": dict(
    category="model_checking",
    text="URI.tla defines Parse and Print over an abstract text algebra (protocol x object shape x location shape x port form) and TLC checks "
         "RoundTrip and FixedPoint over the complete space; Gen_URI.tla prints that space; every abstract text is concretised with several "
         "seeded witnesses (letter case, hostnames, IPv4, bracketed IPv6 spellings, empty host, unix socket paths, ports in every form int() "
         "accepts, tag lists with duplicates and empty tags) and fed to the real URI parser; accepted URIs are printed, re-parsed, compared, "
         "hashed, sent through all four serializers, through Proxy state, and through a name-server registration; accepted URIs that differ "
         "only in location are compared pairwise; TLC validates all recorded facts against Trace_URI.tla.",
    note="Trusted: the concretisation table (a defect needing one particular spelling outside it can be missed); TLC. Which strings are accepted "
         "is not part of the statement; the model's acceptance is reported for information only.",
    technique="TLA+ spec + TLC; TLC-enumerated abstract inputs concretised and run through the real parser/printer/serializers; TLC trace validation",
    ref="6/C19"),
 "C01": dict(
    category="model_checking",
    text="Serial.tla defines abstract values (15 leaf kinds, 6 container kinds, depth 2) and, per serializer, the fixed type mapping Map (the same "
         "for arguments and results), and TLC checks over the complete space that Map is idempotent, lossless on the core and contains the "
         "mappings the statement names; Gen_Serial.tla prints the 2325 abstract values; each is concretised with seeded witnesses (integers "
         "around and far beyond 64 bits, non-finite floats, unicode of all planes, bytes, payloads around the compression threshold) and sent "
         "through dumpsCall/loadsCall vs dumps/loads of each serializer, and (a sample) through a real Proxy/Daemon call over the in-memory "
         "transport as positional, keyword and nested argument, result, batch result and streamed item with compression on and off; TLC "
         "validates per case: shape of what arrived = Map(sent) at every position, arguments and results equal, second trip changes nothing, "
         "core values exact (Trace_Serial.tla).",
    note="Trusted: witness tables and the Python shape/equality projection; the parts of the Map table the statement does not name were taken "
         "from the result path of the code and act as a regression oracle; TLC. Exhaustive over abstract structure, sampled over leaves.",
    technique="TLA+ spec + TLC; TLC-enumerated abstract values concretised and run through the real serializers and call path; TLC trace validation",
    ref="6/C01"),
 "C04": dict(
    category="model_checking",
    text="ClassTag.tla states, per tag class (25 families of names), exception flag and application registration, the only permitted reactions "
         "of the decoder (instance of one class of the closed set, the application's converter, or an error) and TLC checks OnlyClosedSet / "
         "DunderNeverBuilt / ForeignNeverBuilt; Gen_ClassTag.tla enumerates tag class x flag x position of the tagged dict (top, in list / "
         "dict / tuple, deep, as exception arg / attribute, inside an exception wrapper, as a state member) x member shape (minimal, plain, "
         "constructor-friendly, hostile args / attributes / state, nested tags); each case is concretised with several tags per class (all tags "
         "for the dangerous families), encoded with each real serializer and decoded with the real loads and loadsCall under an interpreter "
         "audit hook, a sys.modules snapshot and a census of every type reachable in the result; TLC validates per decode (Trace_ClassTag.tla).",
    note="Trusted: the tag tables, the type census, the audit-event selection (compile is not monitored: serpent uses ast.parse); TLC. Tag "
         "strings are a table plus rotation, not all strings.",
    technique="TLA+ spec + TLC; TLC-enumerated hostile payload shapes decoded by the real serializers under audit; TLC trace validation (monitor)",
    ref="6/C04"),
 "C07": dict(
    category="model_checking",
    text="ExcTransport.tla states what the caller must observe for a remote raise by class kind (builtin, Pyro5 error, unknown to the receiver) "
         "and carriability (same class / args / attributes / remote traceback, or a Pyro error describing the original; proxy usable next); "
         "Gen_Exc.tla enumerates argument-tuple shape x attribute shape x call kind (240); the harness crosses them with every Exception "
         "subclass of builtins and of Pyro5.errors (all 240 cases for representative classes, a rotating subset for the others), a class unknown "
         "to the receiver, unserialisable attribute values, and the four serializers; a real remote method / property / batch member / stream "
         "raises the instance; the caller's exception is compared with the raised one and the same proxy makes another call; TLC validates per "
         "case (Trace_Exc.tla).",
    note="Trusted: exact comparison of class, args and attributes in the harness (nan-aware, tuples modulo the serializer's mapping); in-memory "
         "transport; TLC. Not generated: StopIteration through batch/stream (PEP 479), UnicodeDecodeError under serpent/json (needs bytes, "
         "outside their lossless domain), ExceptionGroup.",
    technique="TLA+ spec + TLC; TLC-enumerated raise shapes crossed with the library's exception whitelist and run through the real call paths; TLC trace validation",
    ref="6/C07"),
 "C02": dict(
    category="model_checking",
    text="Expose.tla defines, for a member shape (kind x where defined x how marked x name class x oneway) and a request (kind x relation of "
         "the requested name to the member), whether target code may run (Served) and what the daemon must advertise; TLC checks OnlyExposed "
         "and AdvertisedIsServed over all 42000 combinations; Gen_Expose.tla enumerates the 540 constructible shapes; for each the harness "
         "builds a real class hierarchy, registers an instance in a real daemon and writes raw INVOKE messages (call, oneway, batch, oneway "
         "batch, __getattr__, __setattr__) for the exact name and its underscore, dunder, reserved, dotted, look-alike and non-string variants "
         "under all four serializers; a side-effect log inside every generated function, an object snapshot, the reply kind and get_metadata "
         "are recorded and judged per case by TLC (Trace_Expose.tla).",
    note="Trusted: the side-effect log (every function of the generated classes appends to it), the snapshot comparison, the in-memory "
         "transport, TLC. One member under test per class next to an always-exposed bystander. Not generated: members reachable only through "
         "a class's own __getattr__ hook, instance-level functions carrying a hand-made mark, metaclass tricks.",
    technique="TLA+ spec + TLC; TLC-enumerated class shapes built as real classes and probed with raw wire requests; TLC trace validation",
    ref="6/C02"),
 "C20": dict(
    category="model_checking",
    text="Gateway.tla models the gateway as a decision procedure over the request space (HTTP method x path shape x object-name class x "
         "member x key configuration x key presented in header / $key x expose pattern x oneway option x query shape: about 1.3 million requests) "
         "with Decide (refuse without traffic / preflight / index / forward) and Forward (what runs, status, body); TLC checks OnlyAuthorised "
         "and InvokesOnlyNamed on all of them; Gen_Gateway.tla folds irrelevant fields and enumerates 12 610 distinguishable requests (including a method slower than the gateway's communication timeout and one whose result is an iterator); each "
         "is concretised as a WSGI environ and given to the real pyro_app in front of a real name-server object and real target objects in a "
         "real daemon (in-memory transport); every Pyro message the gateway sends is counted and every execution of a target member is logged "
         "with object, member, arguments and return value; status, body, traffic and executions are judged per request by TLC "
         "(Trace_Gateway.tla).",
    note="Trusted: the send counter on the gateway's sockets, the execution log in the target objects, JSON comparison of the body with the "
         "value the logged execution returned, the in-memory transport, TLC. Accepted either way: header and $key disagreeing; OPTIONS "
         "answering 200 (no traffic). Not generated: attribute reads with query parameters, blank parameter values, a name server that is down.",
    technique="TLA+ spec + TLC; TLC-enumerated request space concretised into real WSGI calls against a real name server and daemon; TLC trace validation",
    ref="6/C20"),
}
# what later rounds of seeded changes added to the generated spaces (DESIGN.md sections 11.4b-11.4e)
LATER = {
 "C07": "Proxies told to retry (1 and 2 retries) call methods that themselves raise the errors a proxy retries on.",
 "C19": "An accepted uri that cannot be hashed counts as having no equal hash; longer PYROMETA tag lists are written in several orders.",
 "C02": "A run-time change pass replaces or shadows a served method after the daemon has cached the class; two clients fetch the metadata of a fresh class at once.",
 "C04": "Tags also include class dicts and names of other modules' classes under Pyro5.errors; proxy-valued members rotate through every slot (args, attributes, the 'args' attribute, short states, every position of a uri state of each protocol).",
 "C05": "Items include a complete valid message followed at once by a reset (bytes stay readable, every answer fails), also against a thread-pool server whose workers are all busy.",
 "C08": "Validators also refuse with message-less exceptions; first messages include foreign protocols shorter than a header with the peer waiting silently.",
 "C09": "Histories also end connections with a reset, move them to a second daemon, unregister and re-register the classes half way, and register classes that inherit or override an inherited behaviour; creators include a falsy callable.",
 "C10": "Straddle scripts (tenths of a second) run housekeeping shortly before and shortly after the linger / lifetime deadline.",
 "C11": "The journal also exists as a class with one instance per connection (effects read back through the caller's own proxy); a refused name must be named by the exception; long batches.",
 "C12": "The daemon's annotations hook hands out one stored dict; a concurrent pass interleaves slow methods of several clients.",
 "C13": "A request left unfinished past the communication timeout and a security error are endings after which the daemon must drop the connection.",
 "C16": "Histories include unregistering a fresh instance of a registered class, ids no uri can carry, and a completely enumerated family in which a weakly registered object's id passes to another object before it is collected.",
 "C18": "Delay-bounded schedules hold one worker back at each of its first steps. The hand-over of a job and the moment the pool becomes closed are logged inside the critical sections and tied to the atomic effects; grow / shrink / grow scripts; the close starts together with a submission.",
}
# seventh round (DESIGN.md section 11.4g)
ROUND7 = {
 "C01": "The serpent serializer with SERPENT_BYTES_REPR switched on is a serializer variant of its own in Serial.tla (serpentb), driven at serializer and network level.",
 "C02": "Attribute requests that carry more than the name and the value (further positional and keyword arguments) may be refused but must not reach more.",
 "C03": "A stream fetch is a call kind of its own (an item must be the one its own request made an endless server-side iterator produce; 'exhausted' is never an answer); every fourth script uses the proxy in wire-level mode and decodes the reply message itself.",
 "C04": "Class dicts also carry the member names serializers use for their own special dicts (items, real, imag, data, ...), a rebuilt Proxy rotates through them; natively written classes (OrderedDict, complex, uuid, ...) as tags.",
 "C05": "The well-behaved client's own calls include methods, property getters and setters whose code raises Pyro's own error classes (class and text must arrive). A thread-pool hand-over pass: a connection (garbage or well-behaved) ends and the next client arrives while the worker hands itself back, the worker being held back after each of its steps in turn.",
 "C07": "Two connections make the thread-pool daemon raise the very same exception object at once (switch points in the error-reply code and the serializer's class-to-dict conversion).",
 "C08": "Unknown objects include ids that used to be registered and connected to (a collected weak registration, an unregistered object); a pass with real Proxies as peers requires the daemon's reason (validator, unknown object, no free worker) to reach the caller under every serializer.",
 "C09": "Racing first calls (two and three connections) with a creator that fails its first invocation; the race-mode monitor accepts the failure for whichever call got that invocation, exactly one per class.",
 "C10": "Fetches whose reply is lost after the server took them up (the stream moves on, the client must see a communication error); every other script's proxies are told to retry failed calls.",
 "C11": "An earlier batch whose results are never looked at, or are looked at only after the next batch's calls were collected, on a re-used batch proxy.",
 "C13": "Streamed results of every iterator kind (generator, list iterator, endless counter, plain object with __next__); the same thread-pool hand-over pass as C05 (every connection served, cleaned up once, every worker slot free again).",
 "C14": "Name alphabets also with characters beyond the basic plane and with control characters (NUL, DEL, tab).",
 "C15": "The name server object is made under each server type in turn.",
 "C20": "Object names that begin with an empty or a dot path segment (path shape lead_seg in Gateway.tla).",
}
# eighth round (DESIGN.md section 11.4h)
ROUND8 = {
 "C02": "Members that redefine an exposed or an unexposed method of the base class; member kind lazyattr (cached properties and other get-only descriptors: never served, never advertised, never evaluated).",
 "C05": "Items payload_trailing (a second call behind the first in one payload) and payload_proxy_shape (a serialized Proxy as argument list, keyword arguments, member name or whole payload, pointing at a listener that never answers); the disconnect hook fails in every third script; a well-behaved client that cannot connect counts as disturbed.",
 "C07": "Unserialisable content also as text that is not valid unicode (attribute, message, traceback of a chained exception); after the daemon's substitute error a per-connection object of the same connection must still have its state.",
 "C08": "Whatever a validator raises (also ConnectionClosedError) must be answered with a connect-failure carrying the reason; first message class type_partial (header of another type whose body does not follow, sending side closed).",
 "C09": "Histories in which instances take a while to make and every call is preceded by a oneway call on the same class over the same connection.",
 "C10": "Streams.tla: a stream is gone once its time is up, housekeeping or not (NoItemPastDeadline); resume scripts; the proxy that made the streaming call kept by nobody but the iterator.",
 "C11": "A oneway member (note) in the call alphabet of Batch.tla: its result is nothing, in a batch as in a call of its own.",
 "C13": "A connection with an expired streamed result ends while the housekeeping runs in its own thread (schedule exploration over both functions).",
 "C15": "Locks the name server module makes at import time are cooperative too.",
 "C16": "Third focused family: an object with two ids (the second by a forced registration) that loses its first id.",
 "C17": "Fatal socket errors in several shapes (no arguments, text only, subclasses); every recorded read is preceded by a read on another socket through the same code path.",
 "C18": "The refusal path end to end with proxies of every serializer, a connect message naming an unknown serializer, and a silent peer followed by one more client under a communication timeout.",
 "C19": "Uris a real daemon hands out for object ids of every shape must parse back to that id at that daemon.",
 "C20": "The name's registration changes while the gateway runs (given to another object, removed).",
}
# ninth round (DESIGN.md section 11.4i)
ROUND9 = {
 "C01": "Half of the proxies used for calls are copies of the configured proxy; a type replacement registered with one serializer leaves the others as they were.",
 "C02": "The application changes the member lists of a proxy it got from the daemon for its own object.",
 "C03": "Two clients call at the same time and each reply is written while the other is half written.",
 "C05": "Uri texts that are hard to refuse; a supervising parent process turns an interpreter that stops responding into the verdict Hang.",
 "C06": "Messages are read both ways in turn (MSG_WAITALL and the plain loop); the payload handed over as bytes, bytearray, memoryview or memoryview of wide items.",
 "C07": "Every fifth job goes through a daemon behind a Unix domain socket.",
 "C08": "First message class stalled_partial against a daemon with a communication timeout.",
 "C09": "Instances that track a resource whose close() fails.",
 "C10": "Another method of the object that hands out the streams raises while streams are open, with detailed tracebacks.",
 "C11": "An exception class of the application with converters registered both ways; a copy of a batch proxy collecting calls of its own.",
 "C16": "Another daemon of the process with an object of the same class is closed half way.",
 "C17": "A third of the reads go through the SocketConnection object; the buffer to send as bytes, bytearray, memoryview or memoryview of wide items.",
 "C19": "Every uri also travels with a catch-all converter registered later on.",
 "C20": "The requests whose answer depends on the name server's listing also run against a name server on sqlite.",
}
ROUND10 = {
 "C03": "The process-wide retry default differs from what each proxy is told.",
 "C04": "The library's logging is on at DEBUG; every decoded value is rendered the way a detailed traceback renders a local variable; a proxy whose uri is a rebuilt URI with a proxy as host.",
 "C07": "The raising object is a delegating wrapper; attributes with double-underscore names (what add_note() leaves).",
 "C08": "A validator answer larger than the message size limit; a refusal reason that is not valid unicode.",
 "C10": "The scripts' daemon validates the handshake; every other script's client sets a correlation id of its own.",
 "C11": "A failing member whose traceback text (its cause's message) not every serializer can write.",
 "C12": "The client-side pass keeps an unread streamed result in the variable that takes the next call's result.",
 "C13": "Every other tracked resource is an empty container; a housekeeping run that raises is a verdict.",
 "C14": "Every answer passes through one of the four serializers as a remote caller gets it; reading operations are asked twice and the first caller edits the uri it was handed; a removal matching 520 names with failure points spread over all its storage statements.",
 "C15": "Bounded lock waits in virtual time with a storage slower than the configured timeout; the real auto-cleaner's sweep as a third party of the histories.",
 "C16": "Forced registration under the daemon's own id.",
 "C18": "Refusal at a daemon on a Unix domain socket.",
 "C20": "A method whose result is an iterator; a parameter with an empty value; a daemon that annotates its replies, with body chunks checked for type as a WSGI server does.",
}
ROUND11 = {
 "C01": "Network messages travel bare, with the client's annotation, the daemon's, or both.",
 "C02": "Every other probe follows a valid request of the other kind (oneway / answered) on the same connection.",
 "C03": "Every sixth script's proxy has sent the daemon an argument it cannot rebuild before the script starts.",
 "C05": "Streamed results are a generator, a list iterator or a map object by turns.",
 "C07": "Every other streamed result is an iterator class of the application's own.",
 "C16": "A converter of the application registered and withdrawn before a further registration; hand-over of an object from another daemon that is closed afterwards.",
 "C17": "Buffers handed over as arrays of wide items.",
 "C18": "Every fourth raising job leaves by SystemExit.",
 "C19": "Routes tags_edited (a tag added in place after printing) and +again (received twice, the first receiver edits its copy).",
 "C20": "A method whose answer never arrives (the connection is lost after it ran).",
}
ROUND12 = {
 "C05": "Attribute requests with a proxy as the attribute name; an exception the traceback formatter stumbles over.",
 "C08": "Wrong first messages written with an unknown serializer id.",
 "C10": "In a third of the scripts the source object does not keep the streams it handed out alive.",
 "C13": "A resource with parts that only the whole holds on to.",
 "C14": "The removal of 520 names without any failure as well.",
 "C15": "A listing over 300 names overtaken by two removals under delay-bounded schedules.",
 "C16": "Chosen ids that are near misses of the daemon's own id.",
}
ROUND13 = {
 "C02": "Non-text name variants independent of the serializer rotation; the member's own name as bytes under the binary serializers.",
 "C05": "Short foreign messages from a peer that stays connected, in the middle of a session.",
}
for _k, _v in ROUND13.items():
    ROUND12[_k] = (ROUND12[_k] + " " + _v) if _k in ROUND12 else _v
for _k, _v in ROUND12.items():
    ROUND11[_k] = (ROUND11[_k] + " " + _v) if _k in ROUND11 else _v
for _k, _v in ROUND11.items():
    ROUND10[_k] = (ROUND10[_k] + " " + _v) if _k in ROUND10 else _v
for _k, _v in ROUND10.items():
    ROUND9[_k] = (ROUND9[_k] + " " + _v) if _k in ROUND9 else _v
for _k, _v in ROUND9.items():
    ROUND8[_k] = (ROUND8[_k] + " " + _v) if _k in ROUND8 else _v
for _k, _v in ROUND8.items():
    ROUND7[_k] = (ROUND7[_k] + " " + _v) if _k in ROUND7 else _v
for _k, _v in ROUND7.items():
    LATER[_k] = (LATER[_k] + " " + _v) if _k in LATER else _v
NOT_YET = {}
ALL = ["C%02d" % i for i in range(1, 21)]

def main():
    checks = []
    for pid in ALL:
        if pid not in CHECKS:
            continue
        c = CHECKS[pid]
        checks.append({
            "property_id": pid,
            "quick_cmd": "./check %s --tier quick" % pid,
            "thorough_cmd": "./check %s --tier thorough" % pid,
            "evidence_file": "evidence/%s.json" % pid,
            "replay_cmd_template": "./check %s --replay {path}" % pid,
            "engine": "tla-mbt",
            "level_claimed": {"category": c["category"], "text": c["text"] + (" " + LATER[pid] if pid in LATER else ""),
                              "design_ref": "DESIGN.md section " + c["ref"]},
            "level_note": c["note"],
            "technique": c["technique"],
        })
    try:
        commits = subprocess.check_output(["git", "-C", "/repo", "log", "--format=%H %s"], text=True).splitlines()
    except Exception:
        commits = []
    hook_commits = [l.split()[0] for l in commits if l.split(" ", 1)[1].startswith("verif-hook:")]
    m = {
        "version": 1,
        "setup_cmd": "true",
        "hooks": {
            "guard": "PYRO5_VERIF",
            "enable": "no source hooks: every observation point is a harness-side wrapper or a replaced module attribute; ./check sets PYRO5_VERIF=1 for uniformity",
            "baseline_off_cmd": "cd /repo && env -u PYRO5_VERIF /venv/bin/python -m pytest -ra -q -p no:cacheprovider --timeout=900 --continue-on-collection-errors",
            "source_commits": hook_commits,
            "add_only": True,
        },
        "engines": [{"name": "tla-mbt", "path": "harness/", "serves_properties": sorted(CHECKS),
                     "kind_free_text": "explicit TLA+ specifications (specs/) checked with TLC; TLC-generated behaviours replayed into the real Pyro5 code "
                                       "under a deterministic in-memory transport / thread scheduler; recorded traces validated by TLC in batches"}],
        "checks": checks,
        "notes": "Specification modules beyond the listed properties (DESIGN.md section 12: E01 auto-cleaner, E02 proxy life cycle, E03 name resolution, E04 daemon life cycle, E05 oneway calls, E06 the client's view through a proxy, E07 serialized blobs, E08 configuration from the environment, E09 daemon locations, E10 timeouts retries and reconnecting in virtual time, E11 what a proxy carries when it is copied or travels, E12 callbacks, E13 combined request loops, E14 the call context during the handshake validator) run as ./check E01 ... ./check E14 with the same contract; they are not claims. Exit codes: 0 held, 1 VIOLATION, 2 machinery failure. Genuine defects repaired are listed in known_findings.json (fixed:), unrepaired ones under known.",
        "not_applicable": [{"property_id": p, "reason": NOT_YET.get(p, "check not built yet in this round (planned, see DESIGN.md section 6)")} for p in ALL if p not in CHECKS],
    }
    with open(os.path.join(HERE, "MANIFEST.json"), "w") as f:
        json.dump(m, f, indent=1)
    print("MANIFEST: %d checks, %d not_applicable" % (len(checks), len(m["not_applicable"])))

if __name__ == "__main__":
    main()
