#!/usr/bin/env python3
"""dev/self-test helper: run a check against a mutated scratch copy of /repo (never touches /repo).

  tools/mut.py C17 [--tier quick] --sub 'Pyro5/socketutil.py' 'OLD' 'NEW' [--sub ...]   (exact substring, must be unique)
  tools/mut.py C17 --patch file.diff
prints the check output tail and its exit code.
"""
import argparse, os, shutil, subprocess, sys, tempfile

ap = argparse.ArgumentParser()
ap.add_argument("prop")
ap.add_argument("--tier", default="quick")
ap.add_argument("--sub", nargs=3, action="append", default=[])
ap.add_argument("--patch")
ap.add_argument("--tail", type=int, default=12)
a = ap.parse_args()
d = tempfile.mkdtemp(prefix="mut_")
try:
    shutil.copytree("/repo/Pyro5", os.path.join(d, "Pyro5"), ignore=shutil.ignore_patterns("__pycache__"))
    for f, old, new in a.sub:
        p = os.path.join(d, f)
        s = open(p).read()
        if s.count(old) != 1:
            print("substitution target occurs %d times in %s" % (s.count(old), f)); sys.exit(3)
        open(p, "w").write(s.replace(old, new))
    if a.patch:
        subprocess.check_call(["patch", "-p1", "-d", d, "-i", os.path.abspath(a.patch)], stdout=subprocess.DEVNULL)
    r = subprocess.run(["/verif/check", a.prop, "--tier", a.tier, "--repo", d], stdout=subprocess.PIPE, stderr=subprocess.STDOUT, timeout=int(os.environ.get("MUT_TIMEOUT", "900")))
    out = r.stdout.decode()
    print("\n".join(out.splitlines()[-a.tail:]))
    print("exit", r.returncode)
    sys.exit(r.returncode)
finally:
    shutil.rmtree(d, ignore_errors=True)
