import sys, types
sys.path.insert(0,'/repo'); sys.path.insert(0,'/tmp/exp')
import memnet
from Pyro5 import socketutil, svr_multiplex, config, server, client, errors
import Pyro5.api as P
net = memnet.Net()
socketutil.create_socket = net.create_socket
svr_multiplex.selectors = types.SimpleNamespace(DefaultSelector=memnet.FakeSelector, EVENT_READ=1)
config.SERVERTYPE = "multiplex"
config.HOST = "127.0.0.1"

@P.expose
class Thing:
    def __init__(self): self.n = 0
    def add(self, k): self.n += k; return self.n
    def gen(self): yield from range(3)
    @P.oneway
    def ow(self, k): self.n += k

d = P.Daemon(host="127.0.0.1")
uri = d.register(Thing(), "thing")
print("uri", uri)
ts = d.transportServer
def pump():
    # run the server until no more readable events
    for _ in range(100):
        ev = ts.selector.select(0)
        if not ev: return
        ts.events([k.fileobj for k, m in ev])
net.pump = pump
p = P.Proxy(uri)
print(p.add(5), p.add(6))
print(list(p.gen()))
p._pyroRelease(); pump()
print("conns registered:", len(ts.selector.get_map()) - 1, "streams:", len(d.streaming_responses))
import time; t0 = time.time()
for i in range(2000):
    with P.Proxy(uri) as q: q.add(1)
    pump()
print("2000 connect+call+release: %.2fs" % (time.time() - t0))
