import sys, socket, errno, itertools, types
sys.path.insert(0,'/repo')
from Pyro5 import socketutil as SU, errors
SU.time = types.SimpleNamespace(sleep=lambda s: None)
STREAM = bytes(range(1, 60))
class Sock:
    def __init__(self, script, timeout=None): self.script = list(script); self.pos = 0; self.calls = []; self._t = timeout; self.sent = bytearray()
    def gettimeout(self): return self._t
    def recv(self, n, flags=0):
        self.calls.append((n, flags))
        if not self.script: raise AssertionError("script exhausted")
        a = self.script.pop(0)
        if a[0] == "d":
            k = min(a[1], n); r = STREAM[self.pos:self.pos + k]; self.pos += k; return r
        if a[0] == "eof": return b""
        if a[0] == "retry": raise OSError(a[1], "retryable")
        if a[0] == "fatal": raise OSError(errno.ECONNRESET, "reset")
        if a[0] == "timeout": raise socket.timeout("t")
    def send(self, data):
        a = self.script.pop(0)
        if a[0] == "d": k = min(a[1], len(data)); self.sent += bytes(data[:k]); return k
        if a[0] == "retry": raise OSError(a[1], "retryable")
        if a[0] == "fatal": raise OSError(errno.EPIPE, "pipe")
        if a[0] == "timeout": raise socket.timeout("t")
    def sendall(self, data):
        a = self.script.pop(0)
        if a[0] == "d": self.sent += bytes(data); return None
        if a[0] == "fatal": raise OSError(errno.EPIPE, "pipe")
        if a[0] == "timeout": raise socket.timeout("t")
        raise OSError(a[1], "x")
alphabet = [("d", 1), ("d", 2), ("d", 3), ("eof",), ("retry", errno.EINTR), ("retry", errno.EAGAIN), ("fatal",), ("timeout",)]
bad = 0; total = 0
for waitall in (True, False):
    SU.USE_MSG_WAITALL = waitall
    for n in (1, 2, 3):
        for L in range(1, 5):
            for script in itertools.product(alphabet, repeat=L):
                s = Sock(script + (("eof",),) * 6); total += 1
                try:
                    r = SU.receive_data(s, n); out = ("ret", bytes(r))
                except errors.ConnectionClosedError as e: out = ("closed", bytes(getattr(e, "partialData", b"")) if hasattr(e, "partialData") else None)
                except errors.TimeoutError: out = ("timeout",)
                except Exception as e: out = ("OTHER", type(e).__name__, str(e))
                consumed = s.pos
                ok = True
                if out[0] == "ret": ok = out[1] == STREAM[:n] and consumed == n
                elif out[0] == "closed": ok = consumed <= n and (out[1] is None or out[1] == STREAM[:consumed])
                elif out[0] == "timeout": ok = consumed <= n
                else: ok = False
                # over-ask check
                if any(req > n for req, fl in s.calls): ok = False
                if not ok:
                    bad += 1
                    if bad <= 5: print("BAD", waitall, n, script, out, consumed, s.calls)
print("recv scripts", total, "bad", bad)
# send
bad = 0; total = 0
data = STREAM[:4]
for timeout in (None, 1.0):
    for L in range(1, 5):
        for script in itertools.product([("d", 1), ("d", 2), ("d", 4), ("retry", errno.EAGAIN), ("fatal",), ("timeout",)], repeat=L):
            s = Sock(script + (("d", 4),) * 6, timeout); total += 1
            try: SU.send_data(s, data); out = "ok"
            except errors.ConnectionClosedError: out = "closed"
            except errors.TimeoutError: out = "timeout"
            except Exception as e: out = "OTHER " + type(e).__name__
            ok = (out == "ok" and bytes(s.sent) == data) or (out in ("closed", "timeout") and data.startswith(bytes(s.sent)))
            if not ok:
                bad += 1
                if bad <= 5: print("BAD send", timeout, script, out, bytes(s.sent))
print("send scripts", total, "bad", bad)
