import sys, random, types
sys.path.insert(0,'/repo'); sys.path.insert(0,'/tmp/exp')
import sched as S
import threading
from Pyro5 import svr_threads as T, config
T.threading = S.shim_threading()
T.time = types.SimpleNamespace(sleep=lambda s: S.CUR.yield_point())
config.THREADPOOL_SIZE = 1; config.THREADPOOL_SIZE_MIN = 1

wcount = [0]
_orig_start = threading.Thread.start
def coop_start(self):
    sc = S.CUR; wcount[0] += 1; name = "w%d" % wcount[0]
    orig_run = self.run
    def run():
        sc.register(name); sys.settrace(sc.tracer)
        try: orig_run()
        finally: sys.settrace(None); sc.finish()
    self.run = run
    _orig_start(self)
    # wait until child registered (parked)
    with sc.mu:
        while self.ident not in sc.state: sc.mu.wait()
T.Worker.start = coop_start

def one(seed):
    rnd = random.Random(seed); wcount[0] = 0
    sc = S.Sched([T.__file__], lambda names: rnd.choice(names)); S.CUR = sc
    out = {"ran": [], "refused": 0, "maxworkers": 0, "live": set()}
    def main():
        pool = T.Pool()
        def job(i):
            def j(): out["ran"].append(i)
            return j
        for i in range(3):
            try: pool.process(job(i))
            except T.NoFreeWorkersError: out["refused"] += 1
            out["maxworkers"] = max(out["maxworkers"], pool.num_workers())
        # let things settle: yield a few times
        for _ in range(30): sc.yield_point()
        out["final"] = (len(pool.idle), len(pool.busy))
        out["maxworkers"] = max(out["maxworkers"], pool.num_workers())
        pool.close()
    S.controlled(sc, "main", main)
    sc.run()
    return out, sc.trace_log
bad = 0
import time; t0 = time.time()
for seed in range(200):
    out, log = one(seed)
    if out["maxworkers"] > 1:
        bad += 1
        if bad <= 3: print("seed", seed, {k: v for k, v in out.items() if k != 'live'}, "workers started", wcount[0])
print("C18 pool bound violated in", bad, "/200 schedules; %.1fs" % (time.time() - t0))
