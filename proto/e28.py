import sys, random, types
sys.path.insert(0,'/repo'); sys.path.insert(0,'/tmp/exp')
import sched as S
from Pyro5 import server, socketutil
import Pyro5.api as P
def mk(falsy):
    created = []
    class Inst:
        def __init__(self): created.append(self)
        if falsy:
            def __len__(self): return 0
    return Inst, created
class FakeConn:
    def __init__(self): self.pyroInstances = {}
def one(seed, mode, falsy, nolock=False):
    rnd = random.Random(seed)
    sc = S.Sched([server.__file__], lambda names: rnd.choice(names)); S.CUR = sc
    Inst, created = mk(falsy); Inst._pyroInstancing = (mode, None)
    d = P.Daemon.__new__(P.Daemon); d._pyroInstances = {}
    d.create_single_instance_lock = S.CoopLock() if not nolock else types.SimpleNamespace(__enter__=lambda: None, __exit__=lambda *a: None)
    if nolock:
        class NoLock:
            def __enter__(self): return self
            def __exit__(self, *a): return False
        d.create_single_instance_lock = NoLock()
    conns = [FakeConn(), FakeConn()]
    served = []
    def call(i):
        def f(): served.append((i, id(d._getInstance(Inst, conns[i % 2]))))
        return f
    for i in range(3): S.controlled(sc, "t%d" % i, call(i))
    sc.run()
    return served, len(created)
for mode, falsy, nolock in [("single", False, False), ("single", False, True), ("single", True, False), ("session", False, False), ("session", True, False), ("percall", False, False)]:
    bad = 0
    for seed in range(300):
        served, ncreated = one(seed, mode, falsy, nolock)
        ids = [x for _, x in served]
        if mode == "single": ok = len(set(ids)) == 1 and ncreated == 1
        elif mode == "session":
            by = {}
            for i, x in served: by.setdefault(i % 2, set()).add(x)
            ok = all(len(v) == 1 for v in by.values()) and ncreated == len(by) and len(set.union(*by.values())) == len(by)
        else: ok = len(set(ids)) == 3 and ncreated == 3
        bad += not ok
    print("mode=%s falsy=%s nolock=%s: bad %d/300" % (mode, falsy, nolock, bad))
