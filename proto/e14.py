import sys, types
sys.path.insert(0,'/repo'); sys.path.insert(0,'/tmp/exp')
import memnet
from Pyro5 import socketutil, svr_multiplex, config, server, errors
import Pyro5.api as P
net = memnet.Net(); socketutil.create_socket = net.create_socket
svr_multiplex.selectors = types.SimpleNamespace(DefaultSelector=memnet.FakeSelector, EVENT_READ=1)
config.SERVERTYPE = "multiplex"; config.HOST = "127.0.0.1"
now = [1000.0]
server.time = types.SimpleNamespace(time=lambda: now[0], sleep=lambda s: None)
@P.expose
class G:
    def gen(self, n, raise_at=-1):
        for i in range(n):
            if i == raise_at: raise ValueError("mid")
            yield i
    def lst(self): return iter([1, 2])
    def dk(self): return {}.keys()
d = P.Daemon(host="127.0.0.1"); uri = d.register(G(), "g"); ts = d.transportServer
def pump():
    for _ in range(1000):
        ev = ts.selector.select(0)
        if not ev: return
        ts.events([k.fileobj for k, m in ev])   # note: events() runs housekeeping each time
net.pump = pump
def tbl(): return len(d.streaming_responses)
config.ITER_STREAM_LINGER = 30.0; config.ITER_STREAM_LIFETIME = 0
p = P.Proxy(uri); it = p.gen(5); print("first", next(it), next(it), "table", tbl())
p._pyroRelease(); pump(); print("after disconnect table", tbl(), [ (v[0] is None, v[2]) for v in d.streaming_responses.values()])
try: next(it)
except Exception as e: print("next while disconnected:", type(e).__name__)
now[0] += 10; p._pyroReconnect(tries=1); print("reconnected within linger: next ->", next(it), "table", tbl(), [(v[0] is None, v[2]) for v in d.streaming_responses.values()])
p._pyroRelease(); pump(); now[0] += 31
print("linger passed, before housekeeping table", tbl()); d._housekeeping(); print("after housekeeping", tbl())
p._pyroReconnect(tries=1)
try: print("next ->", next(it))
except Exception as e: print("after expiry next:", type(e).__name__, e)
# raise midway
it2 = p.gen(3, 1); print(next(it2))
try: next(it2)
except Exception as e: print("mid raise:", type(e).__name__, e, "table", tbl())
try: next(it2)
except Exception as e: print("after raise next:", type(e).__name__, e)
# exhaustion
it3 = p.gen(2); print(list(it3), "table", tbl())
# close early
it4 = p.gen(5); next(it4); it4.close(); pump(); print("after close table", tbl())
# two interleaved
a = p.gen(3); b = p.gen(3); print([next(a), next(b), next(a), next(b), next(a), next(b)], "table", tbl())
for x in (a, b):
    try: next(x)
    except StopIteration: pass
print("table", tbl())
try: p.dk()
except Exception as e: print("dict keys:", type(e).__name__, str(e)[:60])
config.ITER_STREAMING = False
try: p.gen(2)
except Exception as e: print("streaming disabled:", type(e).__name__, str(e)[:80])
config.ITER_STREAMING = True; config.ITER_STREAM_LIFETIME = 5.0
it5 = p.gen(4); print(next(it5)); now[0] += 6; pump()
print("lifetime exceeded, housekeeping ran by events?", tbl())
try: print(next(it5))
except Exception as e: print("after lifetime:", type(e).__name__, e)
print("table", tbl())
