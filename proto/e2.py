import sys, threading, time
sys.path.insert(0,'/repo')
import Pyro5.api as P
from Pyro5 import config, server, core, errors
config.SERVERTYPE="thread"
from Pyro5.callcontext import current_context

created=[]
@P.expose
@P.behavior(instance_mode="single")
class Falsy:
    def __init__(self): created.append(self); self.items=[]
    def __len__(self): return len(self.items)
    def ping(self): return id(self)

@P.expose
class Helper:
    def __call__(self, *a): return "HELPER CALLED"
    def hm(self): return "hm"

@P.expose
class Ann:
    def __init__(self): self.helper = Helper(); self.factory = Helper
    def setann_raise(self):
        current_context.response_annotations = {"LEAK": b"secret"}
        raise ValueError("boom")
    def normal(self): return 1
    def ret(self, which):
        return objs[which]

class Plain:
    def __init__(self): self.x=1
objs={}
d = P.Daemon()
u1 = d.register(Falsy, "falsy")
u2 = d.register(Ann(), "ann")
pl = Plain(); objs["pl"]=pl
@P.expose
class Reg:
    def hello(self): return "hi"
r = Reg(); objs["r"]=r
d.register(r, "reg")
t = threading.Thread(target=d.requestLoop, daemon=True); t.start()

with P.Proxy(u1) as p:
    a=p.ping(); b=p.ping()
    print("C09 single falsy: same instance?", a==b, "created", len(created))
with P.Proxy(u2) as p:
    try: p.setann_raise()
    except ValueError as x: print("raised; resp ann:", dict(current_context.response_annotations))
    p.normal(); print("C12 next call resp ann:", {k:bytes(v) for k,v in current_context.response_annotations.items()})
    # C02 nested helper via raw invoke
    try:
        print("C02 helper:", p._pyroInvoke("helper", (), {}))
    except Exception as x: print("C02 helper refused:", type(x).__name__, x)
    try:
        print("C02 factory:", p._pyroInvoke("factory", (), {}))
    except Exception as x: print("C02 factory refused:", type(x).__name__, x)
    # C16
    x = p.ret("r"); print("C16 registered returns", type(x).__name__)
    d.unregister("reg")
    try:
        x = p.ret("r"); print("C16 after unregister-by-id returns", type(x).__name__, x)
    except Exception as e: print("C16 after unregister-by-id ERR", type(e).__name__, e)
d.shutdown()
