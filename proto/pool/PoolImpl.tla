---- MODULE PoolImpl ----
EXTENDS Naturals, FiniteSets, Sequences, TLC
CONSTANTS Size, Min, NJobs, UseLock, MaxW
Workers == 1..MaxW
Jobs == 1..NJobs
None == 0
(* --algorithm PoolImpl
variables idle = {}, busy = {}, started = {}, closed = FALSE, lock = 0,
          slot = [x1 \in Workers |-> None], ev = [x2 \in Workers |-> FALSE],
          runs = [x3 \in Jobs |-> 0], refused = {}, exited = {}, maxlive = 0;
define
  NumWorkers == Cardinality(idle) + Cardinality(busy)
  FreshWorker == CHOOSE ww \in Workers : ww \notin started
end define;
macro Acquire(me) begin if UseLock then await lock = 0; lock := me; end if; end macro;
macro Release() begin if UseLock then lock := 0; end if; end macro;

process accept = 100
variables j = 1, w = None;
begin
A0: while j <= NJobs do
P1:   Acquire(100);
P2:   if idle # {} then
P3:     with x \in idle do w := x; idle := idle \ {x}; end with;
        goto P6;
      elsif NumWorkers < Size /\ Cardinality(started) < MaxW then
P4:     w := FreshWorker; started := started \cup {w};
        goto P6;
      else
P5:     refused := refused \cup {j}; w := None;
        goto P8;
      end if;
P6:   busy := busy \cup {w};
P7:   slot[w] := j || ev[w] := TRUE;
P8:   Release();
      j := j + 1;
    end while;
end process;

process worker \in Workers
variables cur = None;
begin
W0: await self \in started;
W1: await ev[self];
W2: ev[self] := FALSE;
W3: if slot[self] = None then goto WX; end if;
W4: cur := slot[self]; runs[cur] := runs[cur] + 1;
W5: slot[self] := None;
N0: Acquire(self);
N1: busy := busy \ {self};
N2: if closed then slot[self] := None || ev[self] := TRUE; goto N5; end if;
N3: if Cardinality(idle) >= Min then
N3a:  slot[self] := None || ev[self] := TRUE;
    else
N4:   idle := idle \cup {self};
    end if;
N5: Release();
    goto W1;
WX: exited := exited \cup {self};
end process;
end algorithm; *)
\* BEGIN TRANSLATION (chksum(pcal) = "81fd550" /\ chksum(tla) = "d4b098ee")
VARIABLES pc, idle, busy, started, closed, lock, slot, ev, runs, refused, 
          exited, maxlive

(* define statement *)
NumWorkers == Cardinality(idle) + Cardinality(busy)
FreshWorker == CHOOSE ww \in Workers : ww \notin started

VARIABLES j, w, cur

vars == << pc, idle, busy, started, closed, lock, slot, ev, runs, refused, 
           exited, maxlive, j, w, cur >>

ProcSet == {100} \cup (Workers)

Init == (* Global variables *)
        /\ idle = {}
        /\ busy = {}
        /\ started = {}
        /\ closed = FALSE
        /\ lock = 0
        /\ slot = [x1 \in Workers |-> None]
        /\ ev = [x2 \in Workers |-> FALSE]
        /\ runs = [x3 \in Jobs |-> 0]
        /\ refused = {}
        /\ exited = {}
        /\ maxlive = 0
        (* Process accept *)
        /\ j = 1
        /\ w = None
        (* Process worker *)
        /\ cur = [self \in Workers |-> None]
        /\ pc = [self \in ProcSet |-> CASE self = 100 -> "A0"
                                        [] self \in Workers -> "W0"]

A0 == /\ pc[100] = "A0"
      /\ IF j <= NJobs
            THEN /\ pc' = [pc EXCEPT ![100] = "P1"]
            ELSE /\ pc' = [pc EXCEPT ![100] = "Done"]
      /\ UNCHANGED << idle, busy, started, closed, lock, slot, ev, runs, 
                      refused, exited, maxlive, j, w, cur >>

P1 == /\ pc[100] = "P1"
      /\ IF UseLock
            THEN /\ lock = 0
                 /\ lock' = 100
            ELSE /\ TRUE
                 /\ lock' = lock
      /\ pc' = [pc EXCEPT ![100] = "P2"]
      /\ UNCHANGED << idle, busy, started, closed, slot, ev, runs, refused, 
                      exited, maxlive, j, w, cur >>

P2 == /\ pc[100] = "P2"
      /\ IF idle # {}
            THEN /\ pc' = [pc EXCEPT ![100] = "P3"]
            ELSE /\ IF NumWorkers < Size /\ Cardinality(started) < MaxW
                       THEN /\ pc' = [pc EXCEPT ![100] = "P4"]
                       ELSE /\ pc' = [pc EXCEPT ![100] = "P5"]
      /\ UNCHANGED << idle, busy, started, closed, lock, slot, ev, runs, 
                      refused, exited, maxlive, j, w, cur >>

P3 == /\ pc[100] = "P3"
      /\ \E x \in idle:
           /\ w' = x
           /\ idle' = idle \ {x}
      /\ pc' = [pc EXCEPT ![100] = "P6"]
      /\ UNCHANGED << busy, started, closed, lock, slot, ev, runs, refused, 
                      exited, maxlive, j, cur >>

P4 == /\ pc[100] = "P4"
      /\ w' = FreshWorker
      /\ started' = (started \cup {w'})
      /\ pc' = [pc EXCEPT ![100] = "P6"]
      /\ UNCHANGED << idle, busy, closed, lock, slot, ev, runs, refused, 
                      exited, maxlive, j, cur >>

P5 == /\ pc[100] = "P5"
      /\ refused' = (refused \cup {j})
      /\ w' = None
      /\ pc' = [pc EXCEPT ![100] = "P8"]
      /\ UNCHANGED << idle, busy, started, closed, lock, slot, ev, runs, 
                      exited, maxlive, j, cur >>

P6 == /\ pc[100] = "P6"
      /\ busy' = (busy \cup {w})
      /\ pc' = [pc EXCEPT ![100] = "P7"]
      /\ UNCHANGED << idle, started, closed, lock, slot, ev, runs, refused, 
                      exited, maxlive, j, w, cur >>

P7 == /\ pc[100] = "P7"
      /\ /\ ev' = [ev EXCEPT ![w] = TRUE]
         /\ slot' = [slot EXCEPT ![w] = j]
      /\ pc' = [pc EXCEPT ![100] = "P8"]
      /\ UNCHANGED << idle, busy, started, closed, lock, runs, refused, exited, 
                      maxlive, j, w, cur >>

P8 == /\ pc[100] = "P8"
      /\ IF UseLock
            THEN /\ lock' = 0
            ELSE /\ TRUE
                 /\ lock' = lock
      /\ j' = j + 1
      /\ pc' = [pc EXCEPT ![100] = "A0"]
      /\ UNCHANGED << idle, busy, started, closed, slot, ev, runs, refused, 
                      exited, maxlive, w, cur >>

accept == A0 \/ P1 \/ P2 \/ P3 \/ P4 \/ P5 \/ P6 \/ P7 \/ P8

W0(self) == /\ pc[self] = "W0"
            /\ self \in started
            /\ pc' = [pc EXCEPT ![self] = "W1"]
            /\ UNCHANGED << idle, busy, started, closed, lock, slot, ev, runs, 
                            refused, exited, maxlive, j, w, cur >>

W1(self) == /\ pc[self] = "W1"
            /\ ev[self]
            /\ pc' = [pc EXCEPT ![self] = "W2"]
            /\ UNCHANGED << idle, busy, started, closed, lock, slot, ev, runs, 
                            refused, exited, maxlive, j, w, cur >>

W2(self) == /\ pc[self] = "W2"
            /\ ev' = [ev EXCEPT ![self] = FALSE]
            /\ pc' = [pc EXCEPT ![self] = "W3"]
            /\ UNCHANGED << idle, busy, started, closed, lock, slot, runs, 
                            refused, exited, maxlive, j, w, cur >>

W3(self) == /\ pc[self] = "W3"
            /\ IF slot[self] = None
                  THEN /\ pc' = [pc EXCEPT ![self] = "WX"]
                  ELSE /\ pc' = [pc EXCEPT ![self] = "W4"]
            /\ UNCHANGED << idle, busy, started, closed, lock, slot, ev, runs, 
                            refused, exited, maxlive, j, w, cur >>

W4(self) == /\ pc[self] = "W4"
            /\ cur' = [cur EXCEPT ![self] = slot[self]]
            /\ runs' = [runs EXCEPT ![cur'[self]] = runs[cur'[self]] + 1]
            /\ pc' = [pc EXCEPT ![self] = "W5"]
            /\ UNCHANGED << idle, busy, started, closed, lock, slot, ev, 
                            refused, exited, maxlive, j, w >>

W5(self) == /\ pc[self] = "W5"
            /\ slot' = [slot EXCEPT ![self] = None]
            /\ pc' = [pc EXCEPT ![self] = "N0"]
            /\ UNCHANGED << idle, busy, started, closed, lock, ev, runs, 
                            refused, exited, maxlive, j, w, cur >>

N0(self) == /\ pc[self] = "N0"
            /\ IF UseLock
                  THEN /\ lock = 0
                       /\ lock' = self
                  ELSE /\ TRUE
                       /\ lock' = lock
            /\ pc' = [pc EXCEPT ![self] = "N1"]
            /\ UNCHANGED << idle, busy, started, closed, slot, ev, runs, 
                            refused, exited, maxlive, j, w, cur >>

N1(self) == /\ pc[self] = "N1"
            /\ busy' = busy \ {self}
            /\ pc' = [pc EXCEPT ![self] = "N2"]
            /\ UNCHANGED << idle, started, closed, lock, slot, ev, runs, 
                            refused, exited, maxlive, j, w, cur >>

N2(self) == /\ pc[self] = "N2"
            /\ IF closed
                  THEN /\ /\ ev' = [ev EXCEPT ![self] = TRUE]
                          /\ slot' = [slot EXCEPT ![self] = None]
                       /\ pc' = [pc EXCEPT ![self] = "N5"]
                  ELSE /\ pc' = [pc EXCEPT ![self] = "N3"]
                       /\ UNCHANGED << slot, ev >>
            /\ UNCHANGED << idle, busy, started, closed, lock, runs, refused, 
                            exited, maxlive, j, w, cur >>

N3(self) == /\ pc[self] = "N3"
            /\ IF Cardinality(idle) >= Min
                  THEN /\ pc' = [pc EXCEPT ![self] = "N3a"]
                  ELSE /\ pc' = [pc EXCEPT ![self] = "N4"]
            /\ UNCHANGED << idle, busy, started, closed, lock, slot, ev, runs, 
                            refused, exited, maxlive, j, w, cur >>

N3a(self) == /\ pc[self] = "N3a"
             /\ /\ ev' = [ev EXCEPT ![self] = TRUE]
                /\ slot' = [slot EXCEPT ![self] = None]
             /\ pc' = [pc EXCEPT ![self] = "N5"]
             /\ UNCHANGED << idle, busy, started, closed, lock, runs, refused, 
                             exited, maxlive, j, w, cur >>

N4(self) == /\ pc[self] = "N4"
            /\ idle' = (idle \cup {self})
            /\ pc' = [pc EXCEPT ![self] = "N5"]
            /\ UNCHANGED << busy, started, closed, lock, slot, ev, runs, 
                            refused, exited, maxlive, j, w, cur >>

N5(self) == /\ pc[self] = "N5"
            /\ IF UseLock
                  THEN /\ lock' = 0
                  ELSE /\ TRUE
                       /\ lock' = lock
            /\ pc' = [pc EXCEPT ![self] = "W1"]
            /\ UNCHANGED << idle, busy, started, closed, slot, ev, runs, 
                            refused, exited, maxlive, j, w, cur >>

WX(self) == /\ pc[self] = "WX"
            /\ exited' = (exited \cup {self})
            /\ pc' = [pc EXCEPT ![self] = "Done"]
            /\ UNCHANGED << idle, busy, started, closed, lock, slot, ev, runs, 
                            refused, maxlive, j, w, cur >>

worker(self) == W0(self) \/ W1(self) \/ W2(self) \/ W3(self) \/ W4(self)
                   \/ W5(self) \/ N0(self) \/ N1(self) \/ N2(self)
                   \/ N3(self) \/ N3a(self) \/ N4(self) \/ N5(self)
                   \/ WX(self)

(* Allow infinite stuttering to prevent deadlock on termination. *)
Terminating == /\ \A self \in ProcSet: pc[self] = "Done"
               /\ UNCHANGED vars

Next == accept
           \/ (\E self \in Workers: worker(self))
           \/ Terminating

Spec == Init /\ [][Next]_vars

Termination == <>(\A self \in ProcSet: pc[self] = "Done")

\* END TRANSLATION 

WorkerBound == Cardinality(idle) + Cardinality(busy) <= Size
AtMostOnce == \A jj \in Jobs : runs[jj] <= 1
RefusedNeverRuns == \A jj \in refused : runs[jj] = 0
====
