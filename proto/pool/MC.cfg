SPECIFICATION Spec
CONSTANTS Size = 3
 Min = 2
 NJobs = 5
 UseLock = TRUE
 MaxW = 5
INVARIANT WorkerBound
INVARIANT AtMostOnce
INVARIANT RefusedNeverRuns
CHECK_DEADLOCK FALSE
