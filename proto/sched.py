"""Prototype deterministic line-level scheduler for real Python threads (experiment only)."""
import sys, threading, random, types
_real_threading = threading

class Deadlock(Exception): pass

class Sched:
    def __init__(self, files, chooser):
        self.files = set(files); self.chooser = chooser
        self.mu = _real_threading.Condition()
        self.state = {}      # tid -> 'ready'|'running'|'blocked'|'done'
        self.waitfor = {}    # tid -> predicate for blocked
        self.turn = None
        self.names = {}
        self.trace_log = []
        self.steps = 0
    # --- called in controlled threads
    def _tid(self): return _real_threading.get_ident()
    def register(self, name):
        with self.mu:
            t = self._tid(); self.names[t] = name; self.state[t] = 'ready'; self.mu.notify_all()
            while self.turn != t: self.mu.wait()
            self.state[t] = 'running'
    def yield_point(self, pred=None):
        t = self._tid()
        if t not in self.state: return
        with self.mu:
            if pred is None: self.state[t] = 'ready'
            else: self.state[t] = 'blocked'; self.waitfor[t] = pred
            self.turn = None; self.mu.notify_all()
            while self.turn != t: self.mu.wait()
            self.state[t] = 'running'; self.waitfor.pop(t, None)
    def finish(self):
        t = self._tid()
        with self.mu:
            self.state[t] = 'done'; self.turn = None; self.mu.notify_all()
    def tracer(self, frame, event, arg):
        if frame.f_code.co_filename in self.files:
            return self.local
        return None
    def local(self, frame, event, arg):
        if event == 'line':
            self.yield_point()
        return self.local
    # --- scheduler loop (main thread)
    def run(self, maxsteps=5000):
        with self.mu:
            while True:
                while self.turn is not None or any(s == 'running' for s in self.state.values()):
                    self.mu.wait()
                live = [t for t, s in self.state.items() if s != 'done']
                if not live: return
                enabled = [t for t in live if self.state[t] == 'ready' or (self.state[t] == 'blocked' and self.waitfor[t]())]
                if not enabled:
                    raise Deadlock({self.names[t]: self.state[t] for t in live})
                enabled.sort(key=lambda t: self.names[t])
                t = self.chooser([self.names[x] for x in enabled])
                t = [x for x in enabled if self.names[x] == t][0]
                self.trace_log.append(self.names[t]); self.steps += 1
                if self.steps > maxsteps: raise RuntimeError("too many steps")
                self.turn = t; self.mu.notify_all()

CUR = None
class CoopLock:
    def __init__(self): self.owner = None; self.count = 0
    def acquire(self, blocking=True, timeout=-1):
        me = _real_threading.get_ident()
        if self.owner == me and self.reentrant: self.count += 1; return True
        while self.owner is not None:
            CUR.yield_point(lambda: self.owner is None)
        self.owner = me; self.count = 1; return True
    def release(self):
        self.count -= 1
        if self.count == 0: self.owner = None
    __enter__ = acquire
    def __exit__(self, *a): self.release()
    reentrant = False
class CoopRLock(CoopLock): reentrant = True
class CoopEvent:
    def __init__(self): self.flag = False
    def set(self): self.flag = True
    def clear(self): self.flag = False
    def is_set(self): return self.flag
    def wait(self, timeout=None):
        while not self.flag:
            CUR.yield_point(lambda: self.flag)
        return True

def shim_threading():
    m = types.SimpleNamespace(**{k: getattr(_real_threading, k) for k in dir(_real_threading) if not k.startswith('__')})
    m.Lock = CoopLock; m.RLock = CoopRLock; m.Event = CoopEvent
    return m

def controlled(sched, name, fn):
    def body():
        sched.register(name)
        sys.settrace(sched.tracer)
        try: fn()
        finally:
            sys.settrace(None); sched.finish()
    th = _real_threading.Thread(target=body, daemon=True); th.start(); return th
