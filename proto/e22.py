import sys, itertools, collections
sys.path.insert(0,'/repo')
from Pyro5 import core, errors, serializers, client
protos = ["PYRO", "pyro", "PyRo", "PYRONAME", "pyroname", "PYROMETA", "PyroMeta", "PYROLOC", "PYR", "HTTP"]
objs = ["obj", "o@b", "obj.sub-1_x", "a,b", "a,,b", ",", ",a", "é", "", "o b"]
locs = [None, "host:80", "host", ":80", "", "1.2.3.4:80", "[::1]:80", "[::1]", "[[::1]]:80", "[fe80::1%eth0]:5", "[abc]:1", "[::1]:80x", "./u:sock", "./u:", "./u:a:b", "./u:dir/sock", "host:80:90", "ho st:1", "host:80\n", "@host:1"]
ports = ["80", "+80", " 80", "80 ", "8_0", "٨٠", "-5", "", "abc", "0", "99999999999", "0x10", "1e2", "８０"]
sig = collections.Counter(); ex = {}
n = acc = 0
def texts():
    for p, o in itertools.product(protos, objs):
        for l in locs:
            yield p + ":" + o + ("" if l is None else "@" + l)
        for port in ports:
            yield "%s:%s@host:%s" % (p, o, port); yield "%s:%s@[::1]:%s" % (p, o, port)
for s in texts():
    n += 1
    try: u = core.URI(s)
    except errors.PyroError: continue
    except Exception as e:
        sig["parse-raises-" + type(e).__name__] += 1; ex.setdefault("parse-raises-" + type(e).__name__, s); continue
    acc += 1
    t = str(u)
    try: u2 = core.URI(t)
    except Exception as e:
        k = "print-unparseable"; sig[k] += 1; ex.setdefault(k, (s, t)); continue
    if u2 != u: k = "reparse-unequal"; sig[k] += 1; ex.setdefault(k, (s, t, u2.__getstate__(), u.__getstate__()))
    if str(u2) != t and not (u.protocol == "PYROMETA" and set(str(u2).split(":", 1)[1].split("@")[0].split(",")) == set(t.split(":", 1)[1].split("@")[0].split(","))):
        k = "not-fixed-point"; sig[k] += 1; ex.setdefault(k, (s, t, str(u2)))
    try:
        if hash(u) != hash(u2) and u == u2: sig["hash-differs"] += 1
    except TypeError: sig["hash-raises(PYROMETA)"] += 1
    for name, ser in serializers.serializers.items():
        try:
            u3 = ser.loads(ser.dumps(u))
            if u3 != u: k = "serializer-changes-" + name; sig[k] += 1; ex.setdefault(k, (s, u.__getstate__(), u3.__getstate__()))
        except Exception as e:
            k = "serializer-fails-%s-%s" % (name, type(e).__name__); sig[k] += 1; ex.setdefault(k, (s, str(e)[:80]))
    if u.protocol == "PYRO":
        try:
            p = client.Proxy(u); 
            for name, ser in serializers.serializers.items():
                p2 = ser.loads(ser.dumps(p))
                if p2._pyroUri != u: k = "proxy-state-changes-" + name; sig[k] += 1; ex.setdefault(k, (s, str(p2._pyroUri)))
        except Exception as e:
            k = "proxy-roundtrip-fails-" + type(e).__name__; sig[k] += 1; ex.setdefault(k, (s, str(e)[:80]))
print("texts", n, "accepted", acc)
for k, v in sorted(sig.items(), key=lambda kv: -kv[1]): print(k, v, "  e.g.", ex.get(k))
