import sys
sys.path.insert(0,'/repo')
from Pyro5 import client
mode = sys.argv[1]
if mode == "noseq": client.Proxy._Proxy__pyroCheckSequence = lambda self, seq: None
if mode == "norelease":
    orig = client.Proxy._pyroRelease
    import inspect
    def rel(self):
        # emulate: release NOT called from _pyroInvoke's except handler
        caller = sys._getframe(1).f_code.co_name
        if caller == "_pyroInvoke": return
        return orig(self)
    client.Proxy._pyroRelease = rel
exec(open('/tmp/exp/e17.py').read())
