import sys, random, itertools
sys.path.insert(0,'/repo'); sys.path.insert(0,'/tmp/exp')
import sched as S
from Pyro5 import nameserver as N, errors
import threading
N.threading = S.shim_threading()

def one(seed):
    rnd = random.Random(seed)
    sc = S.Sched([N.__file__], lambda names: rnd.choice(names)); S.CUR = sc
    ns = N.NameServer(N.MemoryStorage()); ns.register("x", "PYRO:o@h:1")
    res = {}
    def mk(i):
        def f():
            try: res[i] = ns.remove(name="x")
            except BaseException as e: res[i] = "EXC " + type(e).__name__
        return f
    ths = [S.controlled(sc, "t%d" % i, mk(i)) for i in range(2)]
    sc.run()
    return res, sc.trace_log
bad = 0
for seed in range(300):
    res, log = one(seed)
    if sorted(map(str, res.values())) != ['0', '1']:
        bad += 1
        if bad <= 2: print("seed", seed, res, "".join(n[1] for n in log))
print("C15 remove race: bad schedules", bad, "/300")
