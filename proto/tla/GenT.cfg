SPECIFICATION Spec
CONSTANT Depth = 3
CONSTRAINT Emit
CHECK_DEADLOCK FALSE
