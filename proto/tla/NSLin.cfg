SPECIFICATION Spec
CONSTRAINT Constr
POSTCONDITION Post
CHECK_DEADLOCK FALSE
