---- MODULE GenT ----
EXTENDS Naturals, Sequences, TLC, Json
CONSTANTS Depth
Kinds == {"normal", "oneway", "batch"}
Faults == {"deliver", "losereply", "delay", "cut", "resetbefore", "resetafter", "stale", "seqalter"}
VARIABLES h
Init == h = <<>>
Step == /\ Len(h) < Depth /\ \E k \in Kinds, f \in Faults : h' = Append(h, [kind |-> k, fault |-> f])
Spec == Init /\ [][Step]_h
Emit == (Len(h) = Depth) => PrintT(<<"SCRIPT", ToJson(h)>>)
====
