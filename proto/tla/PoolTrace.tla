---- MODULE PoolTrace ----
EXTENDS Naturals, Sequences, TLC, TLCExt, Json, IOUtils, FiniteSets
Traces == JsonDeserialize(IOEnv.TRACE_FILE)
N == Len(Traces)
ASSUME \A i \in 1..N : TLCSet(i, FALSE)
MaxW == 6
MaxJ == 6
Workers == 1..MaxW
Jobs == 1..MaxJ
VARIABLES t, l, ws, js, jw, sub, subres, dn, closed
vars == <<t, l, ws, js, jw, sub, subres, dn, closed>>
Size == Traces[t][1].size
Min == Traces[t][1].min
Ev == Traces[t][l]
More == l <= Len(Traces[t])
Live(s) == Cardinality({w \in Workers : s[w] \in {"idle", "busy", "fin"}})
Busy(s) == Cardinality({w \in Workers : s[w] \in {"busy", "fin"}})
Init == /\ t \in 1..N /\ l = 2
        /\ ws = [w \in Workers |-> IF w <= Traces[t][1].min THEN "idle" ELSE "none"]
        /\ js = [j \in Jobs |-> "new"] /\ jw = [j \in Jobs |-> 0]
        /\ sub = 0 /\ subres = "none" /\ dn = [w \in Workers |-> "no"] /\ closed = FALSE
Adv == l' = l + 1 /\ UNCHANGED t
SubmitCall == /\ More /\ Ev.e = "SubmitCall" /\ sub = 0 /\ js[Ev.j] = "new"
              /\ sub' = Ev.j /\ subres' = "none" /\ js' = [js EXCEPT ![Ev.j] = "called"] /\ Adv
              /\ UNCHANGED <<ws, jw, dn, closed>>
SubmitEffect == /\ sub # 0 /\ subres = "none" /\ ~closed
   /\ \/ \E w \in Workers : /\ ws[w] = "idle"
                            /\ ws' = [ws EXCEPT ![w] = "busy"] /\ jw' = [jw EXCEPT ![sub] = w]
                            /\ js' = [js EXCEPT ![sub] = "assigned"] /\ subres' = "ok"
      \/ \E w \in Workers : /\ ws[w] = "none" /\ Live(ws) < Size
                            /\ ws' = [ws EXCEPT ![w] = "busy"] /\ jw' = [jw EXCEPT ![sub] = w]
                            /\ js' = [js EXCEPT ![sub] = "assigned"] /\ subres' = "ok"
      \/ /\ Busy(ws) = Size /\ subres' = "refused" /\ js' = [js EXCEPT ![sub] = "refused"] /\ UNCHANGED <<ws, jw>>
   /\ UNCHANGED <<t, l, sub, dn, closed>>
SubmitRet == /\ More /\ Ev.e = "SubmitRet" /\ sub = Ev.j /\ subres = Ev.r
             /\ sub' = 0 /\ subres' = "none" /\ Adv /\ UNCHANGED <<ws, js, jw, dn, closed>>
JobStart == /\ More /\ Ev.e = "JobStart" /\ js[Ev.j] = "assigned" /\ jw[Ev.j] = Ev.w
            /\ js' = [js EXCEPT ![Ev.j] = "started"] /\ Adv /\ UNCHANGED <<ws, jw, sub, subres, dn, closed>>
JobEnd == /\ More /\ Ev.e = "JobEnd" /\ js[Ev.j] = "started" /\ jw[Ev.j] = Ev.w
          /\ js' = [js EXCEPT ![Ev.j] = "ended"] /\ ws' = [ws EXCEPT ![Ev.w] = "fin"] /\ Adv
          /\ UNCHANGED <<jw, sub, subres, dn, closed>>
DoneCall == /\ More /\ Ev.e = "DoneCall" /\ dn[Ev.w] = "no" /\ ws[Ev.w] = "fin"
            /\ dn' = [dn EXCEPT ![Ev.w] = "called"] /\ Adv /\ UNCHANGED <<ws, js, jw, sub, subres, closed>>
DoneEffect(w) == /\ dn[w] = "called" /\ ws[w] = "fin"
                 /\ \/ ~closed /\ ws' = [ws EXCEPT ![w] = "idle"]
                    \/ ws' = [ws EXCEPT ![w] = "retired"]
                 /\ dn' = [dn EXCEPT ![w] = "eff"] /\ UNCHANGED <<t, l, js, jw, sub, subres, closed>>
DoneRet == /\ More /\ Ev.e = "DoneRet" /\ dn[Ev.w] = "eff"
           /\ dn' = [dn EXCEPT ![Ev.w] = "no"] /\ Adv /\ UNCHANGED <<ws, js, jw, sub, subres, closed>>
WorkerExit == /\ More /\ Ev.e = "WorkerExit" /\ ws[Ev.w] = "retired"
              /\ ws' = [ws EXCEPT ![Ev.w] = "exited"] /\ Adv /\ UNCHANGED <<js, jw, sub, subres, dn, closed>>
CloseCall == /\ More /\ Ev.e = "CloseCall" /\ ~closed /\ sub = 0 /\ Adv
             /\ closed' = TRUE /\ ws' = [w \in Workers |-> IF ws[w] = "idle" THEN "retired" ELSE ws[w]]
             /\ UNCHANGED <<js, jw, sub, subres, dn>>
CloseRet == /\ More /\ Ev.e = "CloseRet" /\ closed /\ Adv /\ UNCHANGED <<ws, js, jw, sub, subres, dn, closed>>
End == /\ More /\ Ev.e = "End" /\ Ev.how = "ok" /\ Ev.maxw <= Size
       /\ \A j \in Jobs : js[j] \in {"new", "ended", "refused"}
       /\ \A w \in Workers : ws[w] \in {"none", "exited"}
       /\ Adv /\ UNCHANGED <<ws, js, jw, sub, subres, dn, closed>>
Next == SubmitCall \/ SubmitEffect \/ SubmitRet \/ JobStart \/ JobEnd \/ DoneCall \/ DoneRet
        \/ WorkerExit \/ CloseCall \/ CloseRet \/ End \/ \E w \in Workers : DoneEffect(w)
Spec == Init /\ [][Next]_vars
Constr == (l = Len(Traces[t]) + 1) => TLCSet(t, TRUE)
Post == LET bad == {i \in 1..N : TLCGet(i) # TRUE} IN
        IF bad = {} THEN PrintT(<<"ALLACCEPTED", N>>) ELSE PrintT(<<"REJECTED", Cardinality(bad), bad>>) /\ FALSE
====
