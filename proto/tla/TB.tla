---- MODULE TB ----
EXTENDS Naturals, Sequences, TLC, TLCExt, Json, IOUtils, FiniteSets
Traces == JsonDeserialize(IOEnv.TRACE_FILE)
N == Len(Traces)
ASSUME \A i \in 1..N : TLCSet(i, FALSE)
VARIABLES t, l, cnt, hist
vars == <<t, l, cnt, hist>>
Init == /\ t \in 1..N /\ l = 1 /\ cnt = 0 /\ hist = <<>>
Ev == Traces[t][l]
Inc == /\ l <= Len(Traces[t]) /\ Ev.op = "inc" /\ cnt' = cnt + 1 /\ cnt' = Ev.val
       /\ l' = l + 1 /\ hist' = Append(hist, [a |-> "inc", v |-> cnt']) /\ UNCHANGED t
Dec == /\ l <= Len(Traces[t]) /\ Ev.op = "dec" /\ cnt > 0 /\ cnt' = cnt - 1 /\ cnt' = Ev.val
       /\ l' = l + 1 /\ hist' = Append(hist, [a |-> "dec", v |-> cnt']) /\ UNCHANGED t
Next == Inc \/ Dec
Spec == Init /\ [][Next]_vars
Done == (l = Len(Traces[t]) + 1) => TLCSet(t, TRUE)
Constr == Done
Post == LET bad == {i \in 1..N : TLCGet(i) # TRUE} IN
        IF bad = {} THEN PrintT(<<"ALLACCEPTED", N>>) ELSE PrintT(<<"REJECTED", bad>>) /\ FALSE
====
