---- MODULE NSLin ----
EXTENDS Naturals, Sequences, TLC, TLCExt, Json, IOUtils, FiniteSets
Traces == JsonDeserialize(IOEnv.TRACE_FILE)
N == Len(Traces)
ASSUME \A i \in 1..N : TLCSet(i, FALSE)
Threads == 1..3
VARIABLES t, l, present, phase, res
vars == <<t, l, present, phase, res>>
\* phase[th] \in {"idle","called","done"}; res[th] = result decided at the linearization point
Init == /\ t \in 1..N /\ l = 2 /\ present = Traces[t][1].present
        /\ phase = [th \in Threads |-> "idle"] /\ res = [th \in Threads |-> "none"]
More == l <= Len(Traces[t])
Ev == Traces[t][l]
Call == /\ More /\ Ev.e = "call" /\ phase[Ev.th] = "idle"
        /\ phase' = [phase EXCEPT ![Ev.th] = Ev.op] /\ l' = l + 1 /\ UNCHANGED <<t, present, res>>
\* internal, unlogged: the atomic effect of thread th's pending operation
Effect(th) ==
  /\ phase[th] \in {"regsafe", "regunsafe", "remove", "lookup"} /\ res[th] = "none"
  /\ CASE phase[th] = "regsafe" -> IF present THEN res' = [res EXCEPT ![th] = "naming"] /\ UNCHANGED present
                                    ELSE res' = [res EXCEPT ![th] = "ok"] /\ present' = TRUE
       [] phase[th] = "regunsafe" -> res' = [res EXCEPT ![th] = "ok"] /\ present' = TRUE
       [] phase[th] = "remove" -> IF present THEN res' = [res EXCEPT ![th] = "n1"] /\ present' = FALSE
                                   ELSE res' = [res EXCEPT ![th] = "n0"] /\ UNCHANGED present
       [] phase[th] = "lookup" -> res' = [res EXCEPT ![th] = IF present THEN "found" ELSE "naming"] /\ UNCHANGED present
  /\ UNCHANGED <<t, l, phase>>
Ret == /\ More /\ Ev.e = "ret" /\ res[Ev.th] = Ev.r
       /\ phase' = [phase EXCEPT ![Ev.th] = "idle"] /\ res' = [res EXCEPT ![Ev.th] = "none"]
       /\ l' = l + 1 /\ UNCHANGED <<t, present>>
Next == Call \/ Ret \/ \E th \in Threads : Effect(th)
Spec == Init /\ [][Next]_vars
Constr == (l = Len(Traces[t]) + 1) => TLCSet(t, TRUE)
Post == LET bad == {i \in 1..N : TLCGet(i) # TRUE} IN
        IF bad = {} THEN PrintT(<<"ALLACCEPTED", N>>) ELSE PrintT(<<"REJECTED", Cardinality(bad), bad>>) /\ FALSE
====
