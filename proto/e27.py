import sys
sys.path.insert(0,'/repo')
from Pyro5 import serializers
for name, ser in serializers.serializers.items():
    for kw in (None, {}):
        try: ser.loadsCall(ser.dumpsCall("o", "__getattr__", ("attr",), kw)); r = "ok"
        except Exception as e: r = "%s: %s" % (type(e).__name__, e)
        print(name, "kwargs=%r" % (kw,), "->", r)
