import sys, warnings
sys.path.insert(0,'/repo')
from Pyro5 import serializers, errors
warnings.simplefilter("ignore")
special = {
 "UnicodeDecodeError": ("utf-8", b"\xff", 0, 1, "bad"), "UnicodeEncodeError": ("utf-8", "x", 0, 1, "bad"),
 "UnicodeTranslateError": ("x", 0, 1, "bad"), "BaseExceptionGroup": None, "ExceptionGroup": None,
}
res = {}
for sname, ser in serializers.serializers.items():
    bad = []
    for cname, cls in sorted(serializers.all_exceptions.items()):
        if not issubclass(cls, Exception): continue
        if cname in special and special[cname] is None: continue
        args = special.get(cname, ("msg", 42))
        try:
            ex = cls(*args)
        except Exception as e:
            bad.append((cname, "CTOR " + str(e))); continue
        ex.custom = [1, "two"]; ex._pyroTraceback = ["tb line\n"]
        try:
            ex2 = ser.loads(ser.dumps(ex))
        except Exception as e:
            bad.append((cname, "RT %s: %s" % (type(e).__name__, str(e)[:60]))); continue
        ok = type(ex2) is type(ex) and tuple(ex2.args) == tuple(ex.args) and getattr(ex2, "custom", None) == [1, "two"] and getattr(ex2, "_pyroTraceback", None) == ["tb line\n"]
        if not ok: bad.append((cname, "DIFF type=%s args=%r vars=%r (orig type=%s args=%r)" % (type(ex2).__name__, ex2.args, vars(ex2), type(ex).__name__, ex.args)))
    print("==", sname, "exception classes tried:", sum(1 for c in serializers.all_exceptions.values() if issubclass(c, Exception)), "problems:", len(bad))
    for b in bad: print("   ", b)
