import sys, random, types, json, threading
sys.path.insert(0,'/repo'); sys.path.insert(0,'/tmp/exp')
import sched as S
from Pyro5 import svr_threads as T, config
T.threading = S.shim_threading()
T.time = types.SimpleNamespace(sleep=lambda s: S.CUR.yield_point())
fixed = sys.argv[1] == "fixed"; NS = int(sys.argv[2]); SIZE = int(sys.argv[3]); MIN = int(sys.argv[4]); NJ = int(sys.argv[5])
config.THREADPOOL_SIZE = SIZE; config.THREADPOOL_SIZE_MIN = MIN
LOG = None; WIDX = None
def widx():
    return WIDX.get(threading.get_ident(), 0)
_orig_start = threading.Thread.start
def coop_start(self):
    sc = S.CUR; n = len(WIDX) + 1; name = "w%d" % n; orig_run = self.run
    def run():
        WIDX[threading.get_ident()] = n
        sc.register(name); sys.settrace(sc.tracer)
        try: orig_run()
        finally:
            sys.settrace(None); LOG.append({"e": "WorkerExit", "w": n}); sc.finish()
    self.run = run; _orig_start(self)
    with sc.mu:
        while self.ident not in sc.state: sc.mu.wait()
T.Worker.start = coop_start
T.Worker.join = lambda self, timeout=None: None
_process = T.Pool.process; _notify = T.Pool.notify_done
def process(self, job):
    LOG.append({"e": "SubmitCall", "j": job.j})
    try:
        if fixed:
            with self.vlock: _process(self, job)
        else: _process(self, job)
    except T.NoFreeWorkersError: LOG.append({"e": "SubmitRet", "j": job.j, "r": "refused"}); raise
    except BaseException as x: LOG.append({"e": "SubmitRet", "j": job.j, "r": "error"}); raise
    LOG.append({"e": "SubmitRet", "j": job.j, "r": "ok"})
def notify_done(self, worker):
    LOG.append({"e": "DoneCall", "w": widx()})
    try:
        if fixed:
            with self.vlock: _notify(self, worker)
        else: _notify(self, worker)
    finally: LOG.append({"e": "DoneRet", "w": widx()})
T.Pool.process = process; T.Pool.notify_done = notify_done
class Job:
    def __init__(self, j): self.j = j
    def __call__(self):
        LOG.append({"e": "JobStart", "j": self.j, "w": widx()})
        S.CUR.yield_point()
        LOG.append({"e": "JobEnd", "j": self.j, "w": widx()})
def one(seed):
    global LOG, WIDX
    LOG = [{"e": "Init", "size": SIZE, "min": MIN}]; WIDX = {}
    rnd = random.Random(seed); mx = [0]; pool_ref = [None]
    def chooser(names):
        p = pool_ref[0]
        if p is not None: mx[0] = max(mx[0], p.num_workers())
        return rnd.choice(names)
    sc = S.Sched([T.__file__], chooser); S.CUR = sc
    def main():
        pool = T.Pool(); pool.vlock = S.CoopLock(); pool_ref[0] = pool
        for j in range(1, NJ + 1):
            try: pool.process(Job(j))
            except T.NoFreeWorkersError: pass
            for _ in range(rnd.randrange(0, 12)): sc.yield_point()
        for _ in range(40): sc.yield_point()
        LOG.append({"e": "CloseCall"}); pool.close(); LOG.append({"e": "CloseRet"})
    S.controlled(sc, "main", main)
    try: sc.run(); end = "ok"
    except S.Deadlock: end = "deadlock"
    LOG.append({"e": "End", "maxw": mx[0], "how": end})
    return LOG
traces = [one(s) for s in range(NS)]
json.dump(traces, open("/tmp/exp/tla/pool_traces.json", "w"))
print("traces", NS, "over-bound", sum(t[-1]["maxw"] > SIZE for t in traces), "deadlocks", sum(t[-1]["how"] != "ok" for t in traces), "avg len", sum(map(len, traces)) // NS)
