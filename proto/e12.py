import sys, struct, zlib
sys.path.insert(0,'/repo')
from Pyro5 import protocol, config, errors
class Conn:
    def __init__(self, data, frag=None): self.data = data; self.pos = 0; self.reads = []
    def recv(self, n):
        self.reads.append(n)
        if self.pos + n > len(self.data):
            e = errors.ConnectionClosedError("short"); e.partialData = self.data[self.pos:]; self.pos = len(self.data); raise e
        r = self.data[self.pos:self.pos+n]; self.pos += n; return r
def dec(b):
    c = Conn(b)
    try:
        m = protocol.recv_stub(c)
        return ("OK", m.type, m.flags, m.seq, m.serializer_id, bytes(m.data), {k: bytes(v) for k, v in m.annotations.items()}, c.pos)
    except Exception as e:
        return ("ERR", type(e).__name__, str(e)[:50], c.pos)
m = protocol.SendingMessage(protocol.MSG_INVOKE, protocol.FLAGS_COMPRESSED | 0x8000, 65535, 3, b"x" * 10, {"ABCD": b"12", "EFGH": memoryview(b"")})
print("valid:", dec(m.data), "len", len(m.data))
b = bytearray(m.data)
def hdr(**kw):
    f = list(struct.unpack(protocol._header_format, bytes(b[:40])))
    names = ["tag", "ver", "type", "ser", "flags", "seq", "dlen", "alen", "corr", "res", "magic"]
    for k, v in kw.items(): f[names.index(k)] = v
    return struct.pack(protocol._header_format, *f) + bytes(b[40:])
print("alen-1:", dec(hdr(alen=17, dlen=11)))
print("alen+1:", dec(hdr(alen=19, dlen=9)))
# chunk length overrun within same total
bb = bytearray(m.data); bb[44:48] = (3).to_bytes(4, "big"); print("chunk len 3 instead of 2:", dec(bytes(bb)))
bb = bytearray(m.data); bb[44:48] = (1).to_bytes(4, "big"); print("chunk len 1:", dec(bytes(bb)))
bb = bytearray(m.data); bb[40:44] = b"\xff\xfe\xfd\xfc"; print("nonascii id:", dec(bytes(bb)))
bb = bytearray(m.data); bb[50:54] = b"ABCD"; print("dup id:", dec(bytes(bb)))
print("compressed flag but raw payload:", dec(hdr(flags=protocol.FLAGS_COMPRESSED)))
print("reserved nonzero:", dec(hdr(res=7)))
print("trailing bytes:", dec(m.data + b"zz"))
print("truncated:", dec(m.data[:-1]))
config.MAX_MESSAGE_SIZE = 27
print("limit 27 (total 28):", dec(m.data))
try: protocol.SendingMessage(1, 0, 0, 1, b"x" * 10, {"ABCD": b"12", "EFGH": b""}); print("sender ok?!")
except Exception as e: print("sender refuses:", type(e).__name__)
config.MAX_MESSAGE_SIZE = 28; print("limit 28:", dec(m.data)[0])
config.MAX_MESSAGE_SIZE = 1 << 30
config.COMPRESSION = True
for n in (100, 101, 5000):
    mm = protocol.SendingMessage(4, 0, 1, 1, b"a" * n); d = dec(mm.data); print("compress n=%d flags_sent=%d wire=%d decoded_ok=%s flags_dec=%d" % (n, mm.flags, len(mm.data), d[5] == b"a" * n, d[2]))
try: protocol.SendingMessage(4, 0, 1, 1, b"x", {"AB": b""})
except Exception as e: print("bad ann key:", type(e).__name__)
try: protocol.SendingMessage(4, 0, 1, 1, b"x", {"ABCD": "str"})
except Exception as e: print("bad ann val:", type(e).__name__)
try: protocol.SendingMessage(4, 0, 70000, 1, b"x")
except Exception as e: print("seq 70000:", type(e).__name__)
try: print("unicode key:", dec(protocol.SendingMessage(4, 0, 1, 1, b"x", {"ABCé": b"1"}).data))
except Exception as e: print("non-ascii ann key:", type(e).__name__)
