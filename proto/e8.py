import sys
sys.path.insert(0,'/repo')
import Pyro5.api as P
from Pyro5 import server
# C02: does an INVOKE naming an unexposed property run its getter?
log=[]
class A:
    @property
    def secret(self): log.append("getter ran"); return 1
    @P.expose
    def ok(self): return 1
a=A()
try: server._get_attribute(a,"secret")
except AttributeError as e: print("refused:", e)
print("side effects:", log)
# C16: weak double registration / forced displacement
import types
d = P.Daemon.__new__(P.Daemon)  # avoid sockets: emulate minimal fields
d.objectsById={}; d.locationStr="h:1"; d.natLocationStr=None
@P.expose
class B:
    def m(self): return 1
b=B()
print(d.register(b,"x",weak=True))
try: print("second weak registration:", d.register(b,"y",weak=True))
except Exception as e: print("refused", e)
print(sorted(d.objectsById))
