import sys, types
sys.path.insert(0,'/repo'); sys.path.insert(0,'/tmp/exp')
import memnet
from Pyro5 import socketutil, svr_multiplex, config, errors, protocol
import Pyro5.api as P
from Pyro5.callcontext import current_context
net = memnet.Net(); socketutil.create_socket = net.create_socket
svr_multiplex.selectors = types.SimpleNamespace(DefaultSelector=memnet.FakeSelector, EVENT_READ=1)
config.SERVERTYPE = "multiplex"; config.HOST = "127.0.0.1"
@P.expose
class T:
    def leak(self): current_context.response_annotations = {"LEAK": b"A-secret"}; raise ValueError("x")
    def ok(self): return 1
    @property
    def prop(self): current_context.response_annotations = {"LEAK": b"prop"}; return iter([1])
d = P.Daemon(host="127.0.0.1"); uri = d.register(T(), "t"); ts = d.transportServer
def pump():
    for _ in range(100):
        ev = ts.selector.select(0)
        if not ev: return
        ts.events([k.fileobj for k, m in ev])
import threading, queue
q = queue.Queue()
def server_thread():
    while True:
        fn, done = q.get(); 
        try: fn()
        finally: done.set()
threading.Thread(target=server_thread, daemon=True).start()
def handoff():
    done = threading.Event(); q.put((pump, done)); done.wait()
net.pump = handoff
a = P.Proxy(uri)
try: a.leak()
except ValueError: pass
b = P.Proxy(uri); b._pyroBind()
print("client B handshake response annotations:", {k: bytes(v) for k, v in current_context.response_annotations.items()})
b.ok(); print("client B first call annotations:", {k: bytes(v) for k, v in current_context.response_annotations.items()})
try: a.leak()
except ValueError: pass
import Pyro5.protocol as pr
protocol.SendingMessage.ping(b._pyroConnection)
print("(ping sent)")
b.ok(); print("client B call after ping:", {k: bytes(v) for k, v in current_context.response_annotations.items()})
