import sys, types, io, json
sys.path.insert(0,'/repo'); sys.path.insert(0,'/tmp/exp')
import memnet
from Pyro5 import socketutil, svr_multiplex, config, server, errors, nameserver, core
import Pyro5.api as P
from Pyro5.utils import httpgateway as G
net = memnet.Net(); socketutil.create_socket = net.create_socket
svr_multiplex.selectors = types.SimpleNamespace(DefaultSelector=memnet.FakeSelector, EVENT_READ=1)
config.SERVERTYPE = "multiplex"; config.HOST = "localhost"
traffic = []
nsd = nameserver.NameServerDaemon(host="localhost", port=9090)
_orig_lookup = nameserver.NameServer.lookup
def lk(self, name, return_metadata=False): traffic.append(("lookup", name)); return _orig_lookup(self, name, return_metadata)
lk._pyroExposed = True; nameserver.NameServer.lookup = lk
@P.expose
class Obj:
    def __init__(self, n): self.n = n
    def echo(self, **kw): traffic.append(("call", self.n, "echo", kw)); return kw
    def fail(self): traffic.append(("call", self.n, "fail")); raise ValueError("bad")
    @property
    def attr(self): traffic.append(("attr", self.n)); return 5
d = P.Daemon(host="localhost")
for n in ["http.a", "http.ab", "Http.a", "xhttp.a", "other"]:
    nsd.nameserver.register(n, d.register(Obj(n), n))
servers = [nsd.transportServer, d.transportServer]
def pump():
    for _ in range(1000):
        did = False
        for ts in servers:
            ev = ts.selector.select(0)
            if ev: ts.events([k.fileobj for k, m in ev]); did = True
        if not did: return
net.pump = pump
def req(method, path, qs="", **hdr):
    env = {"REQUEST_METHOD": method, "PATH_INFO": path, "QUERY_STRING": qs, "wsgi.errors": io.StringIO()}
    env.update(hdr); st = []
    del traffic[:]
    try: body = b"".join(G.pyro_app(env, lambda s, h: st.append(s)))
    except Exception as e: return ("EXC " + type(e).__name__, None, list(traffic))
    return (st[0], body[:70], list(traffic))
G.pyro_app.comm_timeout = 0
for case in [("GET", "/pyro/http.a/echo", "x=1&y=2"), ("GET", "/pyro/http.a/attr"), ("GET", "/pyro/http.a/$meta"), ("GET", "/pyro/http.a/fail"),
             ("GET", "/pyro/other/echo"), ("GET", "/pyro/xhttp.a/echo"), ("GET", "/pyro/Http.a/echo"), ("PUT", "/pyro/http.a/echo"), ("GET", "/pyro/http.a"),
             ("GET", "/pyro/http.a/nosuch"), ("GET", "/pyro/http.zzz/echo"), ("GET", "/other"), ("POST", "/pyro/http.a/echo", "x=1&x=2")]:
    print(case, "->", req(*case))
G.pyro_app.gateway_key = b"secret"
print("-- key configured")
for case, hdr in [(("GET", "/pyro/http.a/echo", "x=1"), {}), (("GET", "/pyro/http.a/echo", "x=1&$key=secret"), {}), (("GET", "/pyro/http.a/echo", "x=1&$key=wrong"), {}),
                  (("GET", "/pyro/http.a/echo", "x=1"), {"HTTP_X_PYRO_GATEWAY_KEY": "secret"}), (("GET", "/pyro/http.a/echo", "x=1&$key=secret"), {"HTTP_X_PYRO_GATEWAY_KEY": "wrong"}),
                  (("GET", "/pyro/", ""), {}), (("GET", "/pyro/http.a/echo", "x=1"), {"HTTP_X_PYRO_GATEWAY_KEY": "secret", "HTTP_X_PYRO_OPTIONS": "oneway"})]:
    print(case, hdr, "->", req(*case, **hdr)[0], req(*case, **hdr)[2])
G.pyro_app.gateway_key = None
import traceback
env = {"REQUEST_METHOD": "GET", "PATH_INFO": "/pyro/http.a/echo", "QUERY_STRING": "x=1", "wsgi.errors": sys.stderr}
print(G.pyro_app(env, lambda s, h: print(s)))
