import sys, types, socket, errno, itertools, collections
sys.path.insert(0,'/repo'); sys.path.insert(0,'/tmp/exp')
import memnet
from Pyro5 import socketutil, svr_multiplex, config, errors, protocol
import Pyro5.api as P
net = memnet.Net(); socketutil.create_socket = net.create_socket
svr_multiplex.selectors = types.SimpleNamespace(DefaultSelector=memnet.FakeSelector, EVENT_READ=1)
config.SERVERTYPE = "multiplex"; config.HOST = "127.0.0.1"
execs = collections.Counter()
@P.expose
class T:
    def call(self, token): execs[token] += 1; return token
    @P.oneway
    def ow(self, token): execs[token] += 1
d = P.Daemon(host="127.0.0.1"); uri = d.register(T(), "t"); ts = d.transportServer
def serverpump():
    for _ in range(1000):
        ev = ts.selector.select(0)
        if not ev: return
        ts.events([k.fileobj for k, m in ev])
# fault layer: intercept client recv
fault = [None]; lastreply = [None]
def pump():
    serverpump()
net.pump = pump
orig_recv = memnet.FakeSock.recv
def recv(self, size, flags=0):
    if self.client and fault[0] and not getattr(self, "_faulted", False) and getattr(self, "_armed", False):
        f = fault[0]
        if not self.inbuf: serverpump()
        self._faulted = True
        reply = bytes(self.inbuf)
        if f == "lose": del self.inbuf[:]; raise socket.timeout("lost")
        if f == "delay": raise socket.timeout("late")   # reply stays buffered on the old connection
        if f == "cut": del self.inbuf[10:]; self.eof = True
        if f == "reset_after": del self.inbuf[:]; self.reset = True
        if f == "stale" and lastreply[0]: self.inbuf[:0] = lastreply[0]
        if f == "seqalter": self.inbuf[10:12] = b"\x7f\x7f"
        if f not in ("stale",): pass
        lastreply[0] = reply
    elif self.client and getattr(self, "_armed", False) and not getattr(self, "_faulted", False):
        if not self.inbuf: serverpump()
        lastreply[0] = bytes(self.inbuf); self._faulted = True
    return orig_recv(self, size, flags)
memnet.FakeSock.recv = recv
FAULTS = [None, "lose", "delay", "cut", "reset_after", "stale", "seqalter"]
bad = 0; n = 0
for retries in (0, 1, 2):
    for script in itertools.product(FAULTS, repeat=3):
        execs.clear(); lastreply[0] = None
        p = P.Proxy(uri); p._pyroMaxRetries = retries; p._pyroBind(); p._pyroTimeout = 1.0
        outs = []
        for i, f in enumerate(script):
            tok = "tok%d" % i
            # arm: fault applies to first reply read of this call (first attempt only)
            fault[0] = f
            if p._pyroConnection is not None: p._pyroConnection.sock._armed = True; p._pyroConnection.sock._faulted = False
            try:
                r = p.call(tok); outs.append(("ret", r))
            except errors.CommunicationError as e: outs.append(("comm", type(e).__name__))
            except Exception as e: outs.append(("other", type(e).__name__))
            fault[0] = None
            serverpump()
        p._pyroRelease(); serverpump(); n += 1
        ok = True
        for i, (f, o) in enumerate(zip(script, outs)):
            tok = "tok%d" % i
            if o[0] == "ret" and o[1] != tok: ok = False
            if execs[tok] > 1 + retries: ok = False
            if o[0] == "ret" and retries == 0 and execs[tok] != 1: ok = False
            if f is None and o != ("ret", tok): ok = False   # Recovery: fault-free call must succeed
            if f is None and execs[tok] != 1: ok = False
            # a call whose connection was fresh/unarmed (after a failure the proxy reconnects => no fault applied)
        if not ok:
            bad += 1
            if bad <= 5: print("BAD", retries, script, outs, dict(execs))
    print("retries", retries, "scripts so far", n, "bad", bad)
