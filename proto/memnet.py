"""Prototype in-memory deterministic transport (experiment only)."""
import socket, errno, collections, selectors

class Net:
    def __init__(self):
        self.listeners = {}   # (host,port) -> FakeListen
        self.pump = None      # callable run when a client recv finds no data
        self.nextport = 40000
    def create_socket(self, bind=None, connect=None, reuseaddr=False, keepalive=True, timeout=-1, noinherit=False, ipv6=False, nodelay=True, sslContext=None):
        if bind is not None:
            host, port = bind if isinstance(bind, tuple) else (bind, 0)
            if port == 0: self.nextport += 1; port = self.nextport
            ls = FakeListen(self, (host or "127.0.0.1", port)); self.listeners[ls.addr] = ls; return ls
        if connect is not None:
            addr = tuple(connect[:2]) if isinstance(connect, tuple) else (connect, 0)
            ls = self.listeners.get(addr)
            if ls is None or ls.closed: raise ConnectionRefusedError(errno.ECONNREFUSED, "refused")
            self.nextport += 1
            c = FakeSock(self, ("127.0.0.1", self.nextport), addr, client=True); s = FakeSock(self, addr, c.laddr, client=False)
            c.peer, s.peer = s, c
            c._timeout = None if (timeout is None or timeout == 0 or timeout < 0) else timeout
            ls.backlog.append(s); return c
        raise ValueError

class FakeListen:
    family = socket.AF_INET; type = socket.SOCK_STREAM
    def __init__(self, net, addr): self.net = net; self.addr = addr; self.backlog = collections.deque(); self.closed = False; self._timeout=None
    def getsockname(self): return self.addr
    def accept(self):
        if not self.backlog: raise BlockingIOError(errno.EAGAIN, "no conn")
        s = self.backlog.popleft(); return s, s.raddr
    def close(self): self.closed = True
    def fileno(self): return -1
    def settimeout(self, t): self._timeout = t
    def gettimeout(self): return self._timeout
    def readable(self): return bool(self.backlog)

class FakeSock:
    family = socket.AF_INET; type = socket.SOCK_STREAM
    def __init__(self, net, laddr, raddr, client):
        self.net = net; self.laddr = laddr; self.raddr = raddr; self.client = client
        self.inbuf = bytearray(); self.eof = False; self.reset = False; self.closed = False; self._timeout = None; self.peer = None
    def getsockname(self): return self.laddr
    def getpeername(self):
        if self.closed: raise OSError(errno.EBADF, "bad fd")
        return self.raddr
    def fileno(self): return -1
    def settimeout(self, t): self._timeout = t
    def gettimeout(self): return self._timeout
    def setsockopt(self, *a): pass
    def _deliver(self, data):
        if self.peer.closed: raise BrokenPipeError(errno.EPIPE, "broken pipe")
        self.peer.inbuf += data
    def sendall(self, data):
        if self.closed: raise OSError(errno.EBADF, "bad fd")
        self._deliver(bytes(data))
    def send(self, data): self.sendall(data); return len(data)
    def recv(self, size, flags=0):
        if self.closed: raise OSError(errno.EBADF, "bad fd")
        if not self.inbuf and not self.eof and self.client and self.net.pump:
            self.net.pump()
        if self.reset: raise ConnectionResetError(errno.ECONNRESET, "reset")
        if not self.inbuf:
            if self.eof: return b""
            if self._timeout is not None: raise socket.timeout("timed out")
            raise RuntimeError("fake socket would block forever: %s" % ("client" if self.client else "server"))
        out = bytes(self.inbuf[:size]); del self.inbuf[:size]; return out
    def shutdown(self, how): pass
    def close(self):
        if not self.closed:
            self.closed = True
            if self.peer: self.peer.eof = True
    def readable(self): return bool(self.inbuf) or self.eof

class FakeSelector:
    def __init__(self): self.map = {}
    def register(self, fileobj, events, data=None):
        if fileobj in self.map: raise KeyError("already registered")
        self.map[fileobj] = selectors.SelectorKey(fileobj, id(fileobj), events, data)
    def unregister(self, fileobj): return self.map.pop(fileobj)
    def get_map(self): return self.map
    def close(self): self.map = {}
    def select(self, timeout=None):
        out = []
        for f, key in list(self.map.items()):
            s = getattr(f, "sock", f)
            if s.readable(): out.append((key, selectors.EVENT_READ))
        return out
