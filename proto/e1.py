import sys
sys.path.insert(0,'/repo')
from Pyro5 import serializers, core, errors, config
# C01: msgpack loadsCall asymmetry
for name, ser in serializers.serializers.items():
    for v in [2**70, -2**100, 1+2j, (1,2), {1,2}, b"abc", float('inf')]:
        try:
            d = ser.dumpsCall("o","m",(v,),{"k":v})
            o,m,a,k = ser.loadsCall(d)
            r = ser.loads(ser.dumps(v))
            print(name, repr(v), "args->", repr(a[0]), repr(k["k"]), " result->", repr(r))
        except Exception as x:
            print(name, repr(v), "ERR", type(x).__name__, x)
# C19
for s in ["PYRO:obj@:80", "PYROMETA:,", "PYRO:obj@host:+80", "PYRO:obj@host: 80", "PYRO:obj@host:8_0", "PYROMETA:a,b", "PYRONAME:x@:90", "PYRONAME:x@h", "PYRO:o@[::1]:5x", "PYRO:o@./u:s\n"]:
    try:
        u = core.URI(s); t = str(u)
        try:
            u2 = core.URI(t); print(repr(s), "->", repr(t), "reparse eq:", u2==u, "fix:", str(u2)==t)
        except Exception as x: print(repr(s), "->", repr(t), "REPARSE FAIL", x)
    except Exception as x:
        print(repr(s), "rejected", x)
try:
    print(hash(core.URI("PYROMETA:a,b")))
except Exception as x: print("hash PYROMETA:", x)
