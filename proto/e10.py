import sys, types, threading, time as _time
sys.path.insert(0,'/repo'); sys.path.insert(0,'/tmp/exp')
import memnet, sched as S
from Pyro5 import socketutil, svr_threads as T, config, protocol, serializers, errors
import Pyro5.api as P

# cooperative blocking in fake sockets for controlled (server) threads
_orig_recv = memnet.FakeSock.recv
def coop_recv(self, size, flags=0):
    sc = S.CUR
    if not self.client and threading.get_ident() in sc.state:
        while not self.inbuf and not self.eof and not self.closed and not self.reset:
            sc.yield_point(lambda: bool(self.inbuf) or self.eof or self.closed or self.reset)
    return _orig_recv(self, size, flags)
memnet.FakeSock.recv = coop_recv

net = memnet.Net(); socketutil.create_socket = net.create_socket
T.selectors = types.SimpleNamespace(DefaultSelector=memnet.FakeSelector, EVENT_READ=1)
T.threading = S.shim_threading()
T.time = types.SimpleNamespace(sleep=lambda s: None)
class NoHousekeeper:
    def __init__(self, d): self.stop = types.SimpleNamespace(set=lambda: None)
    def start(self): pass
    def join(self): pass
T.Housekeeper = NoHousekeeper
wn = [0]; _orig_start = threading.Thread.start
def coop_start(self):
    sc = S.CUR; wn[0] += 1; name = "w%d" % wn[0]; orig_run = self.run
    def run():
        sc.register(name)
        try: orig_run()
        finally: sc.finish()
    self.run = run; _orig_start(self)
    with sc.mu:
        while self.ident not in sc.state: sc.mu.wait()
T.Worker.start = coop_start
T.Worker.join = lambda self, timeout=None: None
config.SERVERTYPE = "thread"; config.HOST = "127.0.0.1"; config.THREADPOOL_SIZE = 2; config.THREADPOOL_SIZE_MIN = 1

hooks = []
class D(P.Daemon):
    def clientDisconnect(self, conn): hooks.append(id(conn))
@P.expose
class Thing:
    def add(self, a, b): return a + b
    def boom(self): raise ValueError("x")

out = {}
def main():
    sc = S.CUR
    d = D(host="127.0.0.1"); uri = d.register(Thing(), "thing"); ts = d.transportServer
    me = threading.get_ident()
    def quiesce():
        sc.yield_point(lambda: all(s in ("blocked", "done") for t, s in sc.state.items() if t != me)
                       and not any(sc.state[t] == "blocked" and sc.waitfor[t]() for t in list(sc.state) if t != me))
    stop = [False]
    def acceptor():
        sc.register("acceptor")
        try:
            while True:
                sc.yield_point(lambda: stop[0] or bool(ts._selector.select(0)))
                if stop[0]: break
                ts.events([ts.sock])
        finally: sc.finish()
    th = threading.Thread(target=acceptor, daemon=True); th.start()
    with sc.mu:
        while th.ident not in sc.state: sc.mu.wait()
    def pump(): quiesce()
    net.pump = pump
    p1 = P.Proxy(uri); out["r1"] = p1.add(1, 2)
    p2 = P.Proxy(uri); out["r2"] = p2.add(3, 4)
    try: p1.boom()
    except ValueError as e: out["exc"] = str(e)
    # third connection must be refused (pool size 2)
    p3 = P.Proxy(uri)
    try: p3.add(5, 6)
    except errors.CommunicationError as e: out["refused"] = str(e)[:90]
    # raw hostile client: garbage then close
    c = net.create_socket(connect=("127.0.0.1", uri.port)); 
    out["busy_before"] = (len(ts.pool.busy), len(ts.pool.idle))
    p2._pyroRelease(); pump()
    out["busy_after_release"] = (len(ts.pool.busy), len(ts.pool.idle)); out["hooks"] = len(hooks)
    c.sendall(b"GARBAGEGARBAGE" * 5); pump()
    out["garbage_reply"] = bytes(c.inbuf[:60]); c.close(); pump()
    out["r1b"] = p1.add(10, 20)
    p1._pyroRelease(); pump(); out["hooks_end"] = len(hooks); out["busy_end"] = (len(ts.pool.busy), len(ts.pool.idle))
    stop[0] = True; d.close(); quiesce()
sc = S.Sched([], lambda names: names[0]); S.CUR = sc
t0 = _time.time()
S.controlled(sc, "main", main)
try: sc.run()
except Exception as e:
    print("EXC", e); print(out)
    for t in sc.state:
        print(sc.names[t], sc.state[t], sc.waitfor.get(t) and sc.waitfor[t]())

print(out); print("steps", sc.steps, "%.3fs" % (_time.time() - t0))
