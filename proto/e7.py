import sys, uuid, decimal, datetime, array
sys.path.insert(0,'/repo')
from Pyro5 import serializers
vals = {"none":None,"true":True,"int":5,"bigint":2**80,"float":1.5,"inf":float("inf"),"nan":float("nan"),"str":"aé€\U0001F600","bytes":b"\x00\xff","bytearray":bytearray(b"ab"),
 "complex":1+2j,"tuple":(1,"a"),"set":{1,2},"frozenset":frozenset({1}),"list":[1,[2]],"dict":{"a":1},"intkeydict":{1:"a"},"tuplekeydict":{(1,2):"a"},"uuid":uuid.UUID(int=5),"decimal":decimal.Decimal("1.50"),
 "date":datetime.date(2020,1,2),"datetime":datetime.datetime(2020,1,2,3,4,5,678),"time":datetime.time(1,2,3),"timedelta":datetime.timedelta(1,2),"array":array.array('i',[1,2]), "emptytuple":(), "emptyset":set(), "nested":{"k":[(1,2),{3}]}}
def ab(v):
    return type(v).__name__
for name, ser in serializers.serializers.items():
    print("==", name)
    for k, v in vals.items():
        row = []
        for path in ("res","arg","kw"):
            try:
                if path=="res": r = ser.loads(ser.dumps(v))
                elif path=="arg": r = ser.loadsCall(ser.dumpsCall("o","m",(v,),{}))[2][0]
                else: r = ser.loadsCall(ser.dumpsCall("o","m",(),{"k":v}))[3]["k"]
                try: r2 = ser.loads(ser.dumps(r)); idem = (repr(r2)==repr(r))
                except Exception as e: idem = "ERR2"
                row.append("%s:%r idem=%s" % (type(r).__name__, r if len(repr(r))<40 else "...", idem))
            except Exception as e:
                row.append("ERR " + type(e).__name__)
        flag = "" if len(set(x.split(" idem")[0] for x in row))==1 else "  <<< ASYM"
        print("  %-12s %s%s" % (k, " | ".join(row), flag))
