import sys, types, collections
sys.path.insert(0,'/repo'); sys.path.insert(0,'/tmp/exp')
import memnet
from Pyro5 import socketutil, svr_multiplex, config, protocol, serializers, errors
import Pyro5.api as P
from Pyro5.callcontext import current_context
net = memnet.Net(); socketutil.create_socket = net.create_socket
svr_multiplex.selectors = types.SimpleNamespace(DefaultSelector=memnet.FakeSelector, EVENT_READ=1)
config.SERVERTYPE = "multiplex"; config.HOST = "127.0.0.1"
hooks = collections.Counter(); closes = collections.Counter()
class Res:
    def __init__(self, n): self.n = n
    def close(self): closes[self.n] += 1
keep = []
class D(P.Daemon):
    def clientDisconnect(self, conn): hooks[id(conn)] += 1
@P.expose
class T:
    def track(self, n):
        r = Res(n); keep.append(r); current_context.track_resource(r); return n
    def add(self, a, b): return a + b
    def sec(self): raise errors.SecurityError("nope")
d = D(host="127.0.0.1"); uri = d.register(T, "t"); ts = d.transportServer
def pump():
    for _ in range(1000):
        ev = ts.selector.select(0)
        if not ev: return
        ts.events([k.fileobj for k, m in ev])
net.pump = pump
ser = serializers.serializers["serpent"]
req = protocol.SendingMessage(protocol.MSG_INVOKE, 0, 7, ser.serializer_id, ser.dumpsCall("t", "add", (1, 2), {}), {"ABCD": b"xyz"}).data
bad = 0
witness = P.Proxy(uri); witness.track("w")
for k in range(0, len(req) + 1):
    hooks.clear(); 
    p = P.Proxy(uri); p.track("r%d" % k)
    sock = p._pyroConnection.sock
    sock.sendall(req[:k]); pump()
    sock.close(); pump()        # abrupt close after k bytes
    hv = sorted(hooks.values()); c = closes["r%d" % k]
    ok = hv == [1] and c == 1 and closes["w"] == 0 and len(ts.selector.get_map()) == 2
    if not ok: bad += 1; print("offset", k, "hooks", hv, "closes", c, "wclosed", closes["w"], "regs", len(ts.selector.get_map()))
    p._pyroConnection = None
    assert witness.add(k, 1) == k + 1
print("offsets tried", len(req) + 1, "bad", bad)
# security error ending
hooks.clear(); p = P.Proxy(uri); p.track("sec")
try: p.sec()
except Exception as e: print("client sees", type(e).__name__)
pump(); print("after security error: hooks", sorted(hooks.values()), "closes", closes["sec"], "regs", len(ts.selector.get_map()))
try: print("next call on same proxy:", p.add(1, 1))
except Exception as e: print("next call:", type(e).__name__, e)
