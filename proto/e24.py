import sys, collections, itertools
sys.path.insert(0,'/repo')
from Pyro5 import serializers, errors, core, client, server
import builtins, sqlite3
events = []
armed = [False]
def hook(ev, args):
    if armed[0] and ev in ("import", "exec", "compile", "open", "socket.connect", "socket.bind", "subprocess.Popen", "os.system", "os.exec", "os.spawn", "os.posix_spawn", "ctypes.dlopen"):
        events.append((ev, str(args)[:80]))
sys.addaudithook(hook)
tags = ["os.system", "builtins.eval", "builtins.open", "builtins.exec", "subprocess.Popen", "builtins.int", "builtins.type", "builtins.ValueError", "ValueError", "exceptions.ValueError", "builtins.os.system",
        "Pyro5.server.Daemon", "Pyro5.client.Proxy", "Pyro5.core.URI", "Pyro5.core._ExceptionWrapper", "Pyro5.util.SerpentSerializer", "Pyro5.util.Evil", "Pyro5.errors.PyroError", "Pyro5.errors.sys", "Pyro5.errors.format_traceback",
        "Pyro5.errors.config", "Pyro5.errors.PyroError.__subclasses__", "struct.error", "struct.Struct", "sqlite3.OperationalError", "sqlite3.connect", "sqlite3.ConnectionError", "sqlite3.dbapi2.Error", "__main__.X", "a__b", "float", "tgt.Obj", "",
        "SystemExit", "KeyboardInterrupt", "builtins.BaseException", "builtins.__import__", "builtins.BaseExceptionGroup", "Pyro5.nameserver.NameServer", "Pyro5.server.DaemonObject", b"os.system", b"ValueError", 5, None, ["x"]]
payloads = []
for t in tags:
    for exc in (True, False):
        for body in ({"args": ["x"], "attributes": {"__class__": "x", "a": 1}}, {"state": ["PYRO:o@h:1", [], [], [], "hs", None]}, {"args": [{"__class__": "os.system", "__exception__": True, "args": []}]}, {"exception": {"__class__": "os.system", "__exception__": True, "args": []}}, {"value": "1.5"}):
            d = {"__class__": t}; d.update(body)
            if exc: d["__exception__"] = True
            payloads.append(d)
closed = (core.URI, client.Proxy, server.Daemon, serializers.SerializerBase, core._ExceptionWrapper, BaseException, type(None), bool, int, float, str, bytes, list, tuple, dict, set, complex)
def census(v, out):
    out.add(type(v))
    if isinstance(v, (list, tuple, set)): [census(x, out) for x in v]
    elif isinstance(v, dict): [census(x, out) for x in v.values()]
    elif isinstance(v, core._ExceptionWrapper): census(v.exception, out)
    elif isinstance(v, BaseException): [census(x, out) for x in v.args]
res = collections.Counter(); bad = []
import warnings; warnings.simplefilter("ignore")
for name, ser in serializers.serializers.items():
    for d in payloads:
        for wrap in (lambda x: x, lambda x: [x], lambda x: {"k": (x,)} if name in ("serpent", "marshal") else {"k": [x]}):
            val = wrap(d)
            try:
                if name == "json" and any(isinstance(x, bytes) for x in [d["__class__"]]): continue
                if name == "serpent": import serpent; data = serpent.dumps(val)
                elif name == "marshal": import marshal; data = marshal.dumps(val)
                elif name == "json": import json; data = json.dumps(val).encode()
                else: import msgpack; data = msgpack.packb(val, use_bin_type=True)
            except Exception as e: continue
            for path in ("loads", "loadsCall"):
                del events[:]; armed[0] = True
                try:
                    if path == "loads": out = ser.loads(data)
                    else:
                        if name == "serpent": cd = serpent.dumps(("o", "m", (val,), {"kw": val}))
                        elif name == "marshal": cd = marshal.dumps(("o", "m", (val,), {"kw": val}))
                        elif name == "json": cd = json.dumps({"object": "o", "method": "m", "params": [val], "kwargs": {"kw": val}}).encode()
                        else: cd = msgpack.packb(("o", "m", (val,), {"kw": val}), use_bin_type=True)
                        out = ser.loadsCall(cd)[2:]
                    types_ = set(); census(out, types_)
                    odd = [t for t in types_ if not issubclass(t, closed)]
                    r = "built:" + ",".join(sorted(t.__name__ for t in types_ if t not in (list, tuple, dict, str, int, bool, type(None), float, set, bytes)))
                    if odd: bad.append((name, path, d, odd))
                except Exception as e:
                    r = "err:" + type(e).__name__
                finally: armed[0] = False
                if events: bad.append((name, path, d, list(events)))
                res[(str(d["__class__"])[:40], d.get("__exception__", False), r)] += 1
print("payload runs", sum(res.values()), "bad", len(bad))
for b in bad[:10]: print("BAD", b)
agg = collections.defaultdict(set)
for (t, e, r), c in res.items(): agg[(t, e)].add(r)
for k in sorted(agg, key=str): print(k, sorted(agg[k]))
