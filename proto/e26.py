import sys, types, threading, queue, itertools
sys.path.insert(0,'/repo'); sys.path.insert(0,'/tmp/exp')
import memnet
from Pyro5 import socketutil, svr_multiplex, config, errors
import Pyro5.api as P
net = memnet.Net(); socketutil.create_socket = net.create_socket
svr_multiplex.selectors = types.SimpleNamespace(DefaultSelector=memnet.FakeSelector, EVENT_READ=1)
config.SERVERTYPE = "multiplex"; config.HOST = "127.0.0.1"
class Ref:
    def __init__(self): self.total = 0; self.log = []
    @P.expose
    def add(self, k): self.total += k; self.log.append(("add", k)); return self.total
    @P.expose
    def read(self): self.log.append(("read",)); return self.total
    @P.expose
    def fail(self): self.log.append(("fail",)); raise ValueError("fail@%d" % self.total)
    def unexposed(self): self.log.append(("unexposed",)); return 1
    def _private(self): self.log.append(("private",)); return 1
    @P.expose
    def state(self): return [self.total, [list(x) for x in self.log]]
d = P.Daemon(host="127.0.0.1"); ts = d.transportServer
q = queue.Queue()
def pump():
    for _ in range(500):
        ev = ts.selector.select(0)
        if not ev: return
        ts.events([k.fileobj for k, m in ev])
def st():
    while True:
        fn, done = q.get()
        try: fn()
        finally: done.set()
threading.Thread(target=st, daemon=True).start()
def handoff():
    done = threading.Event(); q.put((pump, done)); done.wait()
net.pump = handoff
ALPH = [("add", (1,)), ("add", (2,)), ("read", ()), ("fail", ()), ("unexposed", ()), ("_private", ())]
bad = 0; n = 0
for ser in ["serpent", "json", "msgpack"]:
    config.SERIALIZER = ser
    for L in range(0, 4):
        for calls in itertools.product(ALPH, repeat=L):
            for oneway in (False, True):
                n += 1
                a, b = Ref(), Ref(); ua = d.register(a); ub = d.register(b)
                # sequential
                seq = []
                with P.Proxy(ua) as p:
                    for m, args in calls:
                        try: seq.append(("ok", p._pyroInvoke(m, args, {})))
                        except Exception as e: seq.append(("exc", type(e).__name__, str(e)[:30])); break
                # batch
                with P.Proxy(ub) as p:
                    bp = P.BatchProxy(p)
                    for m, args in calls: getattr(bp, m)(*args)
                    bat = []
                    try:
                        res = bp(oneway=oneway)
                        if not oneway:
                            try:
                                for r in res: bat.append(("ok", r))
                            except Exception as e: bat.append(("exc", type(e).__name__, str(e)[:30]))
                    except Exception as e: bat = ("submit-exc", type(e).__name__, str(e)[:30])
                    handoff()
                sa, sb = a.state(), b.state()
                ok = sa == sb
                if not oneway:
                    if isinstance(bat, tuple):   # raised at submission: must be the failing call's exception
                        ok = ok and seq and seq[-1][0] == "exc" and seq[-1][1] == bat[1]
                    else: ok = ok and bat == seq
                else: ok = ok and res is None
                if not ok:
                    bad += 1
                    if bad <= 6: print("BAD", ser, calls, oneway, "seq", seq, "bat", bat, sa, sb)
                d.unregister(a); d.unregister(b)
print("cases", n, "bad", bad)
