import sys, itertools, collections
sys.path.insert(0,'/repo')
from Pyro5 import server
import Pyro5.api as P
log = []
def fn(tag):
    def f(self, *a): log.append(tag); return tag
    return f
NAMES = {"public": "member", "private": "_member", "mangled": "__member", "dunder_free": "__member__", "dunder_reserved": "__repr__", "dunder_len": "__len__"}
KINDS = ["imethod", "smethod", "cmethod", "prop_ro", "prop_rw", "prop_wo", "classattr", "instattr", "helper_plain", "helper_exposed", "helper_exposed_callable", "classattr_exposedclass"]
MARKS = ["member", "class", "none"]
WHERE = ["own", "base", "overridden"]
@P.expose
class HelperExposed:
    def hm(self): log.append("helper.hm"); return 1
@P.expose
class HelperCallable:
    def __call__(self, *a): log.append("helper.__call__"); return 1
class HelperPlain:
    def hm(self): log.append("plainhelper.hm")
    def __call__(self, *a): log.append("plainhelper.__call__")
def build(kind, mark, where, nameclass):
    name = NAMES[nameclass]
    ns = {}
    inst_init = {}
    def member():
        if kind == "imethod": return fn("RAN")
        if kind == "smethod": return staticmethod(lambda *a: (log.append("RAN"), "RAN")[1])
        if kind == "cmethod": return classmethod(lambda cls, *a: (log.append("RAN"), "RAN")[1])
        if kind == "prop_ro": return property(fn("GET"))
        if kind == "prop_rw": return property(fn("GET"), lambda self, v: log.append("SET"))
        if kind == "prop_wo": return property(None, lambda self, v: log.append("SET"))
        if kind == "classattr": return 42
        if kind == "classattr_exposedclass": return HelperExposed
        return None
    m = member()
    if mark == "member" and m is not None and kind not in ("classattr", "classattr_exposedclass"):
        try:
            if kind in ("smethod", "cmethod"):
                inner = m.__func__; inner.__name__ = name; P.expose(inner)
            elif kind.startswith("prop"):
                f = m.fget or m.fset; f.__name__ = name; m = P.expose(m)
            else:
                m.__name__ = name; m = P.expose(m)
        except AttributeError as e:
            return None, "expose-refused"
    body = {}
    if m is not None: body[name] = m
    if kind in ("instattr", "helper_plain", "helper_exposed", "helper_exposed_callable"):
        val = {"instattr": 42, "helper_plain": HelperPlain(), "helper_exposed": HelperExposed(), "helper_exposed_callable": HelperCallable()}[kind]
        def init(self, _n=name, _v=val): setattr(self, _n, _v)
        body["__init__"] = init
    if where == "own":
        C = type("C", (object,), body)
        if mark == "class": C = P.expose(C)
        return C(), None
    Base = type("Base", (object,), body)
    if mark == "class": Base = P.expose(Base)
    sub = {}
    if where == "overridden":
        if kind == "imethod": sub[name] = fn("RAN-override")
        elif kind.startswith("prop"): sub[name] = property(fn("GET-override"), (lambda self, v: log.append("SET-override")) if kind != "prop_ro" else None)
        else: return None, "n/a"
    Sub = type("Sub", (Base,), sub)
    return Sub(), None
rows = collections.Counter(); ex = {}
for kind, mark, where, nc in itertools.product(KINDS, MARKS, WHERE, NAMES):
    if mark == "member" and kind in ("classattr", "instattr", "helper_plain", "helper_exposed", "helper_exposed_callable", "classattr_exposedclass"): continue
    obj, why = build(kind, mark, where, nc)
    if obj is None: continue
    name = NAMES[nc]
    reqname = name if nc != "mangled" else "_%s__member" % ("C" if where == "own" else "Base")
    private = server.is_private_attribute(reqname)
    explicitly_exposed = mark in ("member", "class") and where != "overridden" and not private and kind in ("imethod", "smethod", "cmethod", "prop_ro", "prop_rw", "prop_wo")
    res = {}
    for req in ("call", "getattr", "setattr"):
        del log[:]
        try:
            if req == "call":
                m = server._get_attribute(obj, reqname); m(); r = "served"
            elif req == "getattr": server._get_exposed_property_value(obj, reqname); r = "served"
            else: server._set_exposed_property_value(obj, reqname, 1); r = "served"
        except Exception as e: r = "refused"
        res[req] = (r, tuple(log))
    server._reset_exposed_members(obj)
    meta = server._get_exposed_members(obj)
    inmeta = reqname in meta["methods"] or reqname in meta["attrs"]
    served_any = any(v[0] == "served" for v in res.values())
    ran_any = any(v[1] for v in res.values())
    # violations
    for req, (r, lg) in res.items():
        if lg and not explicitly_exposed:
            k = ("code-ran-unexposed", kind, mark, where, nc, req, r); rows[k[:1] + (kind, req, r)] += 1; ex.setdefault(k[:1] + (kind, req, r), k + (lg,))
        if lg and explicitly_exposed:
            fits = (req == "call" and kind in ("imethod", "smethod", "cmethod")) or (req == "getattr" and kind in ("prop_ro", "prop_rw")) or (req == "setattr" and kind in ("prop_rw", "prop_wo"))
            if not fits:
                k = ("code-ran-wrong-kind", kind, req, r); rows[k] += 1; ex.setdefault(k, (mark, where, nc, lg))
    if inmeta != served_any:
        k = ("metadata-mismatch", kind, "inmeta=%s" % inmeta, "served=%s" % served_any); rows[k] += 1; ex.setdefault(k, (mark, where, nc, res))
for k, v in sorted(rows.items()): print(k, v, "   e.g.", ex[k])
