import sys, os, tempfile, sqlite3, types
sys.path.insert(0,'/repo')
from Pyro5 import nameserver as N, errors
real = sqlite3
class FailConn:
    def __init__(self, conn, ctl): self._c = conn; self._ctl = ctl
    def execute(self, sql, *a):
        self._ctl["n"] += 1; self._ctl["log"].append(sql.split()[0])
        if self._ctl["n"] == self._ctl["fail_at"]: raise real.OperationalError("injected")
        return self._c.execute(sql, *a)
    def cursor(self): return FailCur(self._c.cursor(), self._ctl)
    def commit(self):
        self._ctl["n"] += 1; self._ctl["log"].append("COMMIT")
        if self._ctl["n"] == self._ctl["fail_at"]: raise real.OperationalError("injected at commit")
        return self._c.commit()
    def __enter__(self): self._c.__enter__(); return self
    def __exit__(self, *a): return self._c.__exit__(*a)
    def __getattr__(self, k): return getattr(self._c, k)
class FailCur:
    def __init__(self, cur, ctl): self._c = cur; self._ctl = ctl
    def execute(self, sql, *a):
        self._ctl["n"] += 1; self._ctl["log"].append(sql.split()[0])
        if self._ctl["n"] == self._ctl["fail_at"]: raise real.OperationalError("injected")
        self._c.execute(sql, *a); return self
    def fetchone(self): return self._c.fetchone()
    def __getattr__(self, k): return getattr(self._c, k)
ctl = {"n": 0, "fail_at": -1, "log": []}
shim = types.SimpleNamespace(**{k: getattr(real, k) for k in dir(real) if not k.startswith("__")})
shim.connect = lambda *a, **kw: FailConn(real.connect(*a, **kw), ctl)
N.sqlite3 = shim
tmp = tempfile.mkdtemp(); f = os.path.join(tmp, "x.db")
def snapshot(): return {n: (u, frozenset(t)) for n, (u, t) in N.NameServer(N.SqlStorage(f)).list(return_metadata=True).items()}
ns = N.NameServer(N.SqlStorage(f))
ns.register("a", "PYRO:o@h:1", metadata=["m1", "m2"]); ns.register("ab", "PYRO:o@h:2", metadata=["m1"]); ns.register("b", "PYRO:o@h:3")
ops = {"register-new": lambda: ns.register("c", "PYRO:o@h:4", metadata=["x", "y"]), "register-over": lambda: ns.register("a", "PYRO:o@h:9", metadata=["z"]),
       "set_metadata": lambda: ns.set_metadata("a", ["q"]), "remove-name": lambda: ns.remove(name="a"), "remove-prefix": lambda: ns.remove(prefix="a"),
       "remove-regex": lambda: ns.remove(regex="a.*")}
bad = 0
for opname, op in ops.items():
    k = 1
    while True:
        before = snapshot()
        ctl.update(n=0, fail_at=k, log=[])
        try: op(); res = "ok"
        except errors.NamingError as e: res = "NamingError"
        except Exception as e: res = "EXC %s %s" % (type(e).__name__, e)
        fired = ctl["n"] >= k
        ctl["fail_at"] = -1
        after = snapshot()
        if not fired:
            # op completed without reaching k statements: restore baseline and move on
            break
        ok = (after == before) and res == "NamingError"
        print("%-14s fail@%d (%s) -> %s ; unchanged=%s %s" % (opname, k, ctl["log"][k - 1], res, after == before, "" if ok else "<<<<"))
        if not ok: bad += 1
        k += 1
    # reset db
    os.remove(f); ns = N.NameServer(N.SqlStorage(f))
    ns.register("a", "PYRO:o@h:1", metadata=["m1", "m2"]); ns.register("ab", "PYRO:o@h:2", metadata=["m1"]); ns.register("b", "PYRO:o@h:3")
print("bad", bad)
