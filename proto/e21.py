import sys, types, random, gc, collections, threading, queue
sys.path.insert(0,'/repo'); sys.path.insert(0,'/tmp/exp')
import memnet
from Pyro5 import socketutil, svr_multiplex, config, errors, core, client
import Pyro5.api as P
net = memnet.Net(); socketutil.create_socket = net.create_socket
svr_multiplex.selectors = types.SimpleNamespace(DefaultSelector=memnet.FakeSelector, EVENT_READ=1)
config.SERVERTYPE = "multiplex"; config.HOST = "127.0.0.1"
from tgt import mkclasses, calls
from Pyro5.serializers import SerializerBase
SerializerBase.register_dict_to_class("tgt.Obj", lambda cn, dct: {"byvalue": dct.get("name")})
sig = collections.Counter(); ex = {}
def run(seed):
    r = random.Random(seed)
    Obj, Cls = mkclasses()
    pool = {"o1": Obj("o1"), "o2": Obj("o2")}
    @P.expose
    class Ctl:
        def ret(self, which): return pool.get(which)
    d = P.Daemon(host="127.0.0.1"); ts = d.transportServer
    ctluri = d.register(Ctl(), "ctl")
    q = queue.Queue()
    def pump():
        for _ in range(200):
            ev = ts.selector.select(0)
            if not ev: return
            ts.events([k.fileobj for k, m in ev])
    def st():
        while True:
            fn, done = q.get()
            if fn is None: return
            try: fn()
            finally: done.set()
    th = threading.Thread(target=st, daemon=True); th.start()
    def handoff():
        done = threading.Event(); q.put((pump, done)); done.wait()
    net.pump = handoff
    model = {}     # id -> key in pool ("o1","o2") or "cls"
    hist = []
    ctl = P.Proxy(ctluri)
    def check(cond, clause, detail):
        if not cond:
            key = clause; sig[key] += 1; ex.setdefault(key, (seed, list(hist), detail))
        return cond
    for step in range(8):
        act = r.choice(["reg", "reg", "reg_force", "reg_weak", "unreg_obj", "unreg_id", "call", "ret", "listing", "reg_cls"])
        ok = True
        if act in ("reg", "reg_force", "reg_weak"):
            k = r.choice(["o1", "o2"]); oid = r.choice(["x", "y", None, "Pyro.Daemon"]); force = act == "reg_force"; weak = act == "reg_weak"
            if oid == "Pyro.Daemon" and force: continue
            if force and (oid is None or (k in model.values() and model.get(oid) != k)): continue
            hist.append((act, k, oid))
            already_obj = k in model.values(); already_id = oid in model or oid == "Pyro.Daemon"
            try:
                uri = d.register(pool[k], oid, force=force, weak=weak); res = "ok"; newid = uri.object
            except errors.DaemonError: res = "refused"
            if force:
                ok = check(res == "ok", "force-refused", res)
            else:
                exp = "refused" if (already_obj or already_id) else "ok"
                ok = check(res == exp, "register-%s-expected-%s-%s" % (res, exp, "objWasWeak" if any(h[0]=="reg_weak" and h[1]==k for h in hist[:-1]) else "noweak"), (k, oid, "weak" if weak else "", dict(model)))
            if res == "ok":
                if force:
                    for i in [i for i, v in model.items() if v == k]: pass   # same object may now be under two ids (forced)
                model[newid] = k
        elif act == "reg_cls":
            oid = r.choice(["c", "x"]); hist.append((act, oid))
            try: d.register(Cls, oid); res = "ok"
            except errors.DaemonError: res = "refused"
            exp = "refused" if (oid in model or "cls" in model.values()) else "ok"
            ok = check(res == exp, "registercls-%s-expected-%s" % (res, exp), dict(model))
            if res == "ok": model[oid] = "cls"
        elif act == "unreg_obj":
            k = r.choice(["o1", "o2"]); hist.append((act, k))
            try: d.unregister(pool[k]); res = "ok"
            except errors.DaemonError: res = "notreg"
            # model: remove the id the object currently carries -- property level: all ids of that object? keep simple: ids mapping to k
            ids = [i for i, v in model.items() if v == k]
            if ids:
                # the code removes only the id stored on the object (last registration)
                pass
            for i in ids[-1:]: del model[i]
            if len(ids) > 1: hist.append(("note", "object had several ids", ids))
        elif act == "unreg_id":
            oid = r.choice(["x", "y", "c", "Pyro.Daemon"]); hist.append((act, oid))
            d.unregister(oid)
            if oid != "Pyro.Daemon": model.pop(oid, None)
        elif act == "call":
            oid = r.choice(["x", "y", "c", "zz"]); hist.append((act, oid))
            del calls[:]
            try:
                with P.Proxy(d.uriFor(oid)) as p: p._pyroBind(); got = p.who()
            except errors.PyroError as e: got = "ERR"
            except Exception as e: got = "EXC " + type(e).__name__
            exp = {"o1": "o1", "o2": "o2", "cls": "cls-instance"}.get(model.get(oid), "ERR")
            ok = check(got == exp, "call-reach", (oid, got, exp, dict(model)))
        elif act == "ret":
            k = r.choice(["o1", "o2"]); hist.append((act, k))
            try: v = ctl.ret(k)
            except Exception as e: v = "EXC " + type(e).__name__ + ": " + str(e)[:50]
            registered = k in model.values()
            if registered:
                if isinstance(v, client.Proxy):
                    del calls[:]
                    try: reached = v.who()
                    except Exception as e: reached = "EXC " + type(e).__name__
                    ok = check(reached == k, "ret-proxy-reaches-other", (k, reached, dict(model)))
                else: ok = check(False, "ret-registered-not-proxy", (k, str(v)[:60], dict(model)))
            else:
                if isinstance(v, client.Proxy):
                    try: reached = v.who()
                    except Exception as e: reached = "EXC " + type(e).__name__
                    ok = check(False, "ret-unregistered-gives-proxy", (k, "reaches " + str(reached), dict(model)))
                else: ok = check(v == {"byvalue": k}, "ret-unregistered-error", (k, str(v)[:80], dict(model)))
        elif act == "listing":
            hist.append((act,))
            got = set(d.objectsById[core.DAEMON_NAME].registered()); exp = set(model) | {"Pyro.Daemon", "ctl"}
            ok = check(got == exp, "listing", (sorted(got), sorted(exp)))
        if not ok: break
    ctl._pyroRelease(); q.put((None, None)); d.close()
for seed in range(1200): run(seed)
for k, v in sorted(sig.items(), key=lambda kv: -kv[1]): print(k, v, "\n   e.g.", ex[k])
