import sys, types, struct, threading, queue, collections
sys.path.insert(0,'/repo'); sys.path.insert(0,'/tmp/exp')
import memnet
from Pyro5 import socketutil, svr_multiplex, config, errors, protocol, serializers
import Pyro5.api as P
net = memnet.Net(); socketutil.create_socket = net.create_socket
svr_multiplex.selectors = types.SimpleNamespace(DefaultSelector=memnet.FakeSelector, EVENT_READ=1)
config.SERVERTYPE = "multiplex"; config.HOST = "127.0.0.1"
execlog = []
class Unser(Exception):
    def __reduce__(self): raise Exception("nope")
    def __getstate__(self): raise Exception("nope")
class StrRaises(Exception):
    def __str__(self): raise RuntimeError("str fails")
    __repr__ = __str__
@P.expose
class T:
    def ping(self, tok): execlog.append(tok); return tok
    def unser(self): execlog.append("unser"); e = ValueError("x"); e.attr = object(); raise e
    def unser2(self): execlog.append("unser2"); raise Unser("u")
    def strraises(self): execlog.append("strraises"); raise StrRaises()
    def retunser(self): return object()
validator = [None]
class D(P.Daemon):
    def validateHandshake(self, conn, data):
        if validator[0]: return validator[0](data)
        return "hello"
d = D(host="127.0.0.1"); uri = d.register(T(), "t"); ts = d.transportServer
q = queue.Queue(); crashed = []
def pump():
    for _ in range(500):
        ev = ts.selector.select(0)
        if not ev: return
        try: ts.events([k.fileobj for k, m in ev])
        except BaseException as e: crashed.append(repr(e)); raise
def st():
    while True:
        fn, done = q.get()
        try: fn()
        except BaseException as e: pass
        finally: done.set()
threading.Thread(target=st, daemon=True).start()
def handoff():
    done = threading.Event(); q.put((pump, done)); done.wait()
net.pump = handoff
ser = serializers.serializers["serpent"]
def connect_msg(obj="t", hs="hello", serid=None, mtype=protocol.MSG_CONNECT):
    return protocol.SendingMessage(mtype, 0, 0, serid or ser.serializer_id, ser.dumps({"handshake": hs, "object": obj})).data
def invoke_msg(method="ping", args=("PIPE",), obj="t", seq=1, flags=0, serid=None):
    return protocol.SendingMessage(protocol.MSG_INVOKE, flags, seq, serid or ser.serializer_id, ser.dumpsCall(obj, method, args, {})).data
def raw():
    return net.create_socket(connect=("127.0.0.1", uri.port))
def readall(c):
    handoff(); return bytes(c.inbuf), c.eof
def mtypes(b):
    out = []; i = 0
    while i + 40 <= len(b):
        h = struct.unpack(protocol._header_format, b[i:i+40]); out.append((h[2], h[4], b[i+40+h[7]:i+40+h[7]+h[6]][:40])); i += 40 + h[6] + h[7]
    return out
witness = P.Proxy(uri); assert witness.ping("w0") == "w0"
def check(label, c):
    b, eof = readall(c)
    ok_w = witness.ping("w") == "w"
    fresh = P.Proxy(uri); ok_new = fresh.ping("n") == "n"; fresh._pyroRelease(); handoff()
    print("%-34s replies=%s closed=%s pipedExec=%s witness=%s new=%s regs=%d crashed=%s" % (label, [(t, f) for t, f, _ in mtypes(b)], eof, "PIPE" in execlog, ok_w, ok_new, len(ts.selector.get_map()), crashed))
    if "PIPE" in execlog: execlog.remove("PIPE")
# --- C08: first message variants with INVOKE pipelined behind
for label, first in [("invoke-first", invoke_msg()), ("ping-first", protocol.SendingMessage(protocol.MSG_PING, 0, 0, 42, b"ping").data), ("result-first", connect_msg(mtype=protocol.MSG_RESULT)),
                     ("connect-unknown-obj", connect_msg(obj="nosuch")), ("connect-bad-serializer", connect_msg(serid=99)), ("garbage", b"GARBAGE!" * 8), ("wrong-version", b"PYRO\x00\x01" + b"\0" * 34),
                     ("connect-bad-payload", protocol.SendingMessage(protocol.MSG_CONNECT, 0, 0, ser.serializer_id, b"not serpent").data), ("connect-nokeys", protocol.SendingMessage(protocol.MSG_CONNECT, 0, 0, ser.serializer_id, ser.dumps({"x": 1})).data),
                     ("truncated-connect", connect_msg()[:30])]:
    c = raw(); c.sendall(first + invoke_msg() + invoke_msg(seq=2))
    if label == "truncated-connect": handoff(); c.close()
    check("C08 " + label, c)
for label, v in [("validator-raises-ValueError", lambda d: (_ for _ in ()).throw(ValueError("denied!"))), ("validator-raises-ConnClosed", lambda d: (_ for _ in ()).throw(errors.ConnectionClosedError("cc"))),
                 ("validator-raises-Security", lambda d: (_ for _ in ()).throw(errors.SecurityError("sec"))), ("validator-returns-obj", lambda d: object())]:
    validator[0] = v; c = raw(); c.sendall(connect_msg() + invoke_msg()); handoff(); validator[0] = None; check("C08 " + label, c)
# --- C05: after valid handshake
def hs():
    c = raw(); c.sendall(connect_msg()); handoff(); del c.inbuf[:]; return c
big = bytearray(invoke_msg()); big[12:16] = (0xFFFFFFFF).to_bytes(4, "big")
for label, data, close in [("unknown-object", invoke_msg(obj="nosuch"), False), ("unknown-member", invoke_msg(method="nosuch"), False), ("unser-attr", invoke_msg(method="unser", args=()), False),
                           ("unser-class", invoke_msg(method="unser2", args=()), False), ("str-raises", invoke_msg(method="strraises", args=()), False), ("ret-unserialisable", invoke_msg(method="retunser", args=()), False),
                           ("bad-serializer-id", invoke_msg(serid=77), False), ("bad-msgtype", connect_msg(), False), ("oversized-len", bytes(big), True), ("undecodable", protocol.SendingMessage(protocol.MSG_INVOKE, 0, 1, ser.serializer_id, b"\xff\xfe garbage").data, False),
                           ("compressed-flag-raw", protocol.SendingMessage(protocol.MSG_INVOKE, 0, 1, ser.serializer_id, b"x").data[:8] + struct.pack("!H", protocol.FLAGS_COMPRESSED) + protocol.SendingMessage(protocol.MSG_INVOKE, 0, 1, ser.serializer_id, b"x").data[10:], False),
                           ("garbage-after-hs", b"\x00\x01\x02" * 30, False), ("cut-in-payload", invoke_msg()[:55], True)]:
    c = hs(); c.sendall(data + (b"" if close else invoke_msg(args=("PIPE",), seq=9)))
    if close: handoff(); c.close()
    check("C05 " + label, c)
