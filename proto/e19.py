import sys, os, tempfile, random, re, collections
sys.path.insert(0,'/repo')
from Pyro5 import nameserver as N, errors, core
NAMES = ["a", "A", "a_", "a%b", "ab", "a.b", "é", "aé", "Pyro.NameServer", "x*"]
TAGS = ["t", "T", "t%", "u"]
URIS = ["PYRO:o@h:1", "PYRO:p@h:2"]
def regexes():
    out = []
    for n in NAMES[:6]:
        out += [re.escape(n), "^" + re.escape(n) + "$", ".*" + re.escape(n) + "$"]
    return out + [".*", "(", "a."]
REG = regexes()
def model_apply(m, op):
    k = op[0]
    if k == "register":
        _, name, uri, safe, tags = op
        if safe and name in m: return "NamingError"
        m[name] = (uri, frozenset(tags or ())); return None
    if k == "remove_name":
        name = op[1]
        if name and name in m and name != "Pyro.NameServer": del m[name]; return 1
        return 0
    if k == "remove_prefix":
        p = op[1]
        if not p: return 0
        items = [n for n in m if n.startswith(p) and n != "Pyro.NameServer"]
        for n in items: del m[n]
        return len(items)
    if k == "remove_regex":
        r = op[1]
        try: rx = re.compile(r)
        except re.error: return "NamingError"
        items = [n for n in m if rx.match(n) and n != "Pyro.NameServer"]
        for n in items: del m[n]
        return len(items)
    if k == "set_metadata":
        _, name, tags = op
        if name not in m: return "NamingError"
        m[name] = (m[name][0], frozenset(tags or ())); return None
    if k == "lookup":
        name = op[1]
        if name not in m: return "NamingError"
        return (m[name][0], frozenset(m[name][1]))
    if k == "list_prefix":
        p = op[1]; return {n: (u, t) for n, (u, t) in m.items() if n.startswith(p)} if p else dict(m)
    if k == "list_regex":
        r = op[1]
        try: rx = re.compile(r)
        except re.error: return "NamingError"
        return {n: v for n, v in m.items() if rx.match(n)}
    if k == "yp_all":
        tags = op[1]
        if not tags: return {}
        return {n: v for n, v in m.items() if set(tags) <= v[1]}
    if k == "yp_any":
        tags = op[1]
        if not tags: return {}
        return {n: v for n, v in m.items() if set(tags) & v[1]}
    if k == "count": return len(m)
def real_apply(ns, op):
    k = op[0]
    try:
        if k == "register": return ns.register(op[1], op[2], safe=op[3], metadata=op[4])
        if k == "remove_name": return ns.remove(name=op[1])
        if k == "remove_prefix": return ns.remove(prefix=op[1])
        if k == "remove_regex": return ns.remove(regex=op[1])
        if k == "set_metadata": return ns.set_metadata(op[1], op[2])
        if k == "lookup":
            u, t = ns.lookup(op[1], return_metadata=True); return (str(u), frozenset(t))
        if k == "list_prefix": return {n: (u, frozenset(t)) for n, (u, t) in ns.list(prefix=op[1], return_metadata=True).items()}
        if k == "list_regex": return {n: (u, frozenset(t)) for n, (u, t) in ns.list(regex=op[1], return_metadata=True).items()}
        if k == "yp_all": return {n: (u, frozenset(t)) for n, (u, t) in ns.yplookup(meta_all=op[1]).items()}
        if k == "yp_any": return {n: (u, frozenset(t)) for n, (u, t) in ns.yplookup(meta_any=op[1]).items()}
        if k == "count": return ns.count()
    except errors.NamingError: return "NamingError"
    except Exception as e: return "EXC " + type(e).__name__
def randop(r):
    k = r.choice(["register"] * 4 + ["remove_name", "remove_prefix", "remove_regex", "set_metadata", "lookup", "list_prefix", "list_regex", "yp_all", "yp_any", "count"])
    tags = lambda: r.choice([None, [], [r.choice(TAGS)], r.sample(TAGS, 2), [TAGS[0], TAGS[0]]])
    if k == "register": return (k, r.choice(NAMES), r.choice(URIS), r.random() < 0.4, tags())
    if k in ("remove_name", "lookup"): return (k, r.choice(NAMES + [""]))
    if k in ("remove_prefix", "list_prefix"): return (k, r.choice(["a", "A", "a_", "a%", "", "P", "é", "x"]))
    if k in ("remove_regex", "list_regex"): return (k, r.choice(REG))
    if k == "set_metadata": return (k, r.choice(NAMES), tags())
    if k in ("yp_all", "yp_any"): return (k, tags())
    return (k,)
tmp = tempfile.mkdtemp(); sig = collections.Counter(); ex = {}
for seed in range(1500):
    r = random.Random(seed)
    mem = N.NameServer(N.MemoryStorage()); f = os.path.join(tmp, "n%d.db" % seed); sql = N.NameServer(N.SqlStorage(f))
    model = {}
    for step in range(10):
        op = randop(r)
        exp = model_apply(model, op); a = real_apply(mem, op); b = real_apply(sql, op)
        for who, got in (("mem", a), ("sql", b)):
            if got != exp:
                key = (who, op[0], "got-exc" if isinstance(got, str) and got.startswith("EXC") else "diff")
                sig[key] += 1; ex.setdefault(key, (seed, step, op, exp, got))
        # resync: stop this history at first divergence
        if a != exp or b != exp: break
    os.remove(f)
for k, v in sorted(sig.items()): print(k, v, "\n    e.g.", ex[k])
