import Pyro5.api as P
calls = []
def mkclasses():
    @P.expose
    class Obj:
        def __init__(self, name): self.name = name
        def who(self): calls.append(self.name); return self.name
    @P.expose
    class Cls:
        def who(self): calls.append("cls-instance"); return "cls-instance"
    return Obj, Cls
