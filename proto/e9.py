import sys, random, json
sys.path.insert(0,'/repo'); sys.path.insert(0,'/tmp/exp')
import sched as S
from Pyro5 import nameserver as N, errors
N.threading = S.shim_threading()
OPS = ["regsafe", "remove", "lookup", "regunsafe"]
def one(seed, fixed):
    rnd = random.Random(seed)
    sc = S.Sched([N.__file__], lambda names: rnd.choice(names)); S.CUR = sc
    ns = N.NameServer(N.MemoryStorage())
    if fixed: ns.lock = S.CoopRLock()
    pre = rnd.random() < 0.5
    if pre: ns.register("x", "PYRO:o@h:1")
    log = [{"e": "init", "present": pre}]
    ops = [rnd.choice(OPS) for _ in range(3)]
    def mk(i, op):
        def f():
            log.append({"e": "call", "th": i + 1, "op": op})
            try:
                if op == "regsafe": ns.register("x", "PYRO:o@h:%d" % (i + 2), safe=True); r = "ok"
                elif op == "regunsafe": ns.register("x", "PYRO:o@h:%d" % (i + 2)); r = "ok"
                elif op == "remove":
                    if fixed:
                        with ns.lock: r = "n%d" % ns.remove(name="x")
                    else: r = "n%d" % ns.remove(name="x")
                else: ns.lookup("x"); r = "found"
            except errors.NamingError: r = "naming"
            except BaseException as e: r = "internal"
            log.append({"e": "ret", "th": i + 1, "op": op, "r": r})
        return f
    for i, op in enumerate(ops): S.controlled(sc, "t%d" % i, mk(i, op))
    sc.run()
    return log
fixed = sys.argv[1] == "fixed"; n = int(sys.argv[2])
traces = [one(s, fixed) for s in range(n)]
json.dump(traces, open("/tmp/exp/tla/ns_traces.json", "w"))
print("wrote", n, "traces; internal errors in", sum(any(e.get("r") == "internal" for e in t) for t in traces))
