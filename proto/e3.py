import sys, os, tempfile
sys.path.insert(0,'/repo')
from Pyro5 import nameserver as N
tmp = tempfile.mkdtemp()
mem = N.NameServer(N.MemoryStorage()); sql = N.NameServer(N.SqlStorage(os.path.join(tmp,"ns.db")))
for ns in (mem, sql):
    for n in ["abc","ABC","a_c","a%c","axc",""]:
        ns.register(n, "PYRO:o@h:1", metadata={"m","M"})
for label, f in [("prefix a_", lambda ns: sorted(ns.list(prefix="a_"))), ("prefix A", lambda ns: sorted(ns.list(prefix="A"))),
                 ("prefix a%", lambda ns: sorted(ns.list(prefix="a%"))),
                 ("remove ''", lambda ns: ns.remove(name="")), ("count", lambda ns: ns.count()),
                 ("yp all m", lambda ns: sorted(ns.yplookup(meta_all=["m"]))), ("yp all m,m", lambda ns: sorted(ns.yplookup(meta_all=["m","m"]))),
                 ("yp any M", lambda ns: sorted(ns.yplookup(meta_any=["M"]))),
                 ("lookup md", lambda ns: ns.lookup("abc", return_metadata=True)[1]),
                 ("remove prefix A", lambda ns: ns.remove(prefix="A")), ("list", lambda ns: sorted(ns.list()))]:
    a = f(mem); b = f(sql); print(label, "MEM", a, "SQL", b, "" if a==b else "   <<<< DIFF")
